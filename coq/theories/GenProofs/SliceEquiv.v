(** The slice wrappers of plenccodec/wrapper.go, writing side, as translated
    from the Go source ([PlencGen.GenSlice], generated on every run by
    tools/gotrans): BaseSliceWrapper.Omit and size / append / Size / Append of
    WTVarIntSliceWrapper, WTFixedSliceWrapper, WTLengthSliceWrapper and
    ProtoSliceWrapper compute the model's [omit] / [size] / [enc] for CSliceVar,
    CSliceFix, CSliceLen and CSliceProto, for every element codec given as its
    method table.  The slice header behind the pointer is the record
    (Data, Len, Cap); Data is the backing array, element i lives at
    Data + i*EltSize (GoMem.v). *)
From Plenc Require Import Base Varint Wire VarintProofs GoSem JsonAny Codec SizeProofs GoMem.
From PlencGen Require Import GenCore CoreEquiv GenSlice.
Open Scope N_scope.

(** the header of a slice holding exactly [l] *)
Definition hdr (l : list val) : sliceHeader :=
  mksliceHeader (VSlice l) (Z.of_nat (length l)) (Z.of_nat (length l)).
Definition bsw (c : codec) : BaseSliceWrapper := mkBaseSliceWrapper (Some (gcodec_of c)) 0 (zero c).

Lemma sadd64_small a b : (- 9223372036854775808 <= a + b < 9223372036854775808)%Z -> sadd 64 a b = (a + b)%Z.
Proof. intros H. unfold sadd. apply swrap64_small. exact H. Qed.

Lemma go_elem_ok site (l : list val) i : (0 <= i < Z.of_nat (length l))%Z ->
  go_elem site (VSlice l) i = Ok (nth (Z.to_nat i) l (VSkip 0)).
Proof.
  intros H. unfold go_elem, go_nth, go_len. cbn [slice_elems].
  replace ((i <? 0) || (Z.of_nat (length l) <=? i))%Z with false
    by (symmetry; apply orb_false_iff; split; [apply Z.ltb_ge|apply Z.leb_gt]; lia).
  destruct (nth_error l (Z.to_nat i)) eqn:E.
  - rewrite (nth_error_nth _ _ _ E). reflexivity.
  - apply nth_error_None in E. lia.
Qed.

Lemma skipn_nth_cons (l : list val) i : (i < length l)%nat -> skipn i l = nth i l (VSkip 0) :: skipn (S i) l.
Proof.
  revert i. induction l as [|x l IH]; intros i H; [cbn in H; lia|].
  destruct i; [reflexivity|]. cbn [skipn nth]. apply IH. cbn in H. lia.
Qed.

Theorem gen_Slice_Omit : forall l, BaseSliceWrapper_Omit (hdr l) = match l with [] => true | _ => false end.
Proof. intros [|x l]; reflexivity. Qed.

(** ** appending the elements one after the other (packed scalars, fixed-width elements, the repeated form) *)
Definition elems_loop (s1 s2 s3 : string) (F : nat) (u : option gcodec) (h : sliceHeader) (tag_ : bytes) :=
  fix loop1 (fuel' : nat) (data : bytes) (i : Z) {struct fuel'} : res (lout bytes (bytes * Z)) :=
      match fuel' with
      | O => Hang s1
      | S fuel' =>
        if (Z.ltb i (sliceHeader_Len h)) then
        do el_1 <- go_elem s2 (sliceHeader_Data h) i;
        do cd_2 <- go_itf s3 u;
        do r_3 <- gc_Append cd_2 F data el_1 tag_;
        let data := r_3 in
        let i := (sadd 64 i 1%Z) in
        loop1 fuel' data i
        else Ok (LDone (data, i))
      end.

Lemma elems_loop_equiv s1 s2 s3 F c l tag : (Z.of_nat (length l) < 4611686018427387904)%Z ->
  forall f data i, (0 <= i <= Z.of_nat (length l))%Z -> (Z.to_nat (Z.of_nat (length l) - i) < f)%nat ->
  elems_loop s1 s2 s3 F (Some (gcodec_of c)) (hdr l) tag f data i
  = Ok (LDone (data ++ flat_map (fun x => enc c x tag) (skipn (Z.to_nat i) l), Z.of_nat (length l))).
Proof.
  intros Hlen. induction f as [|f IH]; intros data i Hi Hf; [lia|].
  cbn [elems_loop hdr sliceHeader_Len sliceHeader_Data].
  destruct (Z.ltb i (Z.of_nat (length l))) eqn:E.
  - apply Z.ltb_lt in E. rewrite go_elem_ok by lia. cbn [bind go_itf gcodec_of gc_Append].
    rewrite sadd64_small by lia.
    fold (elems_loop s1 s2 s3 F (Some (gcodec_of c)) (hdr l) tag).
    rewrite IH by lia.
    rewrite (skipn_nth_cons l (Z.to_nat i)) by lia. cbn [flat_map]. rewrite <- app_assoc.
    replace (Z.to_nat (i + 1)) with (S (Z.to_nat i)) by lia. reflexivity.
  - apply Z.ltb_ge in E. assert (i = Z.of_nat (length l)) by lia. subst i.
    rewrite Nat2Z.id, skipn_all. cbn [flat_map]. rewrite app_nil_r. reflexivity.
Qed.

Definition vw (c : codec) : WTVarIntSliceWrapper := mkWTVarIntSliceWrapper (bsw c).
Definition fw (c : codec) : WTFixedSliceWrapper := mkWTFixedSliceWrapper (bsw c).
Definition lw (c : codec) : WTLengthSliceWrapper := mkWTLengthSliceWrapper (bsw c).
Definition prw (c : codec) : ProtoSliceWrapper := mkProtoSliceWrapper (bsw c).

Theorem gen_VarSlice_append : forall c l data fuel, (Z.of_nat (length l) < 4611686018427387904)%Z -> (length l < fuel)%nat ->
  WTVarIntSliceWrapper_append fuel (vw c) data (hdr l) = Ok (data ++ flat_map (fun x => enc c x []) l).
Proof.
  intros c l data fuel Hl Hf.
  change (WTVarIntSliceWrapper_append fuel (vw c) data (hdr l))
    with (do lr <- elems_loop "append.loop1" "append.el_1" "append.cd_2" fuel (Some (gcodec_of c)) (hdr l) [] fuel data 0%Z;
          match lr with LRet v => Ok v | LDone (data, i) => Ok data end).
  rewrite elems_loop_equiv by (auto; lia). reflexivity.
Qed.

Theorem gen_FixSlice_append : forall c l data fuel, (Z.of_nat (length l) < 4611686018427387904)%Z -> (length l < fuel)%nat ->
  WTFixedSliceWrapper_append fuel (fw c) data (hdr l) = Ok (data ++ flat_map (fun x => enc c x []) l).
Proof.
  intros c l data fuel Hl Hf.
  change (WTFixedSliceWrapper_append fuel (fw c) data (hdr l))
    with (do lr <- elems_loop "append.loop1" "append.el_1" "append.cd_2" fuel (Some (gcodec_of c)) (hdr l) [] fuel data 0%Z;
          match lr with LRet v => Ok v | LDone (data, i) => Ok data end).
  rewrite elems_loop_equiv by (auto; lia). reflexivity.
Qed.

(** the repeated (protobuf) form: every element under the field's tag *)
Theorem gen_ProtoSlice_Append : forall c l data tag fuel, (Z.of_nat (length l) < 4611686018427387904)%Z -> (length l < fuel)%nat ->
  ProtoSliceWrapper_Append fuel (prw c) data (hdr l) tag = Ok (data ++ enc (CSliceProto c) (VSlice l) tag).
Proof.
  intros c l data tag fuel Hl Hf.
  change (ProtoSliceWrapper_Append fuel (prw c) data (hdr l) tag)
    with (do lr <- elems_loop "Append.loop1" "Append.el_1" "Append.cd_2" fuel (Some (gcodec_of c)) (hdr l) tag fuel data 0%Z;
          match lr with LRet v => Ok v | LDone (data, i) => Ok data end).
  rewrite elems_loop_equiv by (auto; lia). reflexivity.
Qed.

(** ** sizes *)
Definition sizes_loop (s1 s2 s3 : string) (u : option gcodec) (h : sliceHeader) (tag_ : bytes) :=
  fix loop1 (fuel' : nat) (i : Z) (size : Z) {struct fuel'} : res (lout Z (Z * Z)) :=
      match fuel' with
      | O => Hang s1
      | S fuel' =>
        if (Z.ltb i (sliceHeader_Len h)) then
        do el_1 <- go_elem s2 (sliceHeader_Data h) i;
        do cd_2 <- go_itf s3 u;
        let size := (sadd 64 size (gc_Size cd_2 el_1 tag_)) in
        let i := (sadd 64 i 1%Z) in
        loop1 fuel' i size
        else Ok (LDone (i, size))
      end.

Lemma sum_map_cons {A} (g : A -> N) x l : sum_map g (x :: l) = g x + sum_map g l.
Proof. reflexivity. Qed.

Lemma sizes_loop_equiv s1 s2 s3 c l tag : (Z.of_nat (length l) < 4611686018427387904)%Z ->
  forall f i acc, (0 <= i <= Z.of_nat (length l))%Z -> (Z.to_nat (Z.of_nat (length l) - i) < f)%nat -> (0 <= acc)%Z ->
  (acc + Z.of_N (sum_map (fun x => size c x tag) (skipn (Z.to_nat i) l)) < 9223372036854775808)%Z ->
  sizes_loop s1 s2 s3 (Some (gcodec_of c)) (hdr l) tag f i acc
  = Ok (LDone (Z.of_nat (length l), (acc + Z.of_N (sum_map (fun x => size c x tag) (skipn (Z.to_nat i) l)))%Z)).
Proof.
  intros Hlen. induction f as [|f IH]; intros i acc Hi Hf Hacc Hsum; [lia|].
  cbn [sizes_loop hdr sliceHeader_Len sliceHeader_Data].
  destruct (Z.ltb i (Z.of_nat (length l))) eqn:E.
  - apply Z.ltb_lt in E. rewrite go_elem_ok by lia. cbn [bind go_itf gcodec_of gc_Size].
    rewrite (skipn_nth_cons l (Z.to_nat i)) in * by lia. rewrite sum_map_cons in *.
    rewrite (sadd64_small i 1) by lia. rewrite sadd64_small by lia.
    fold (sizes_loop s1 s2 s3 (Some (gcodec_of c)) (hdr l) tag).
    replace (Z.to_nat (i + 1)) with (S (Z.to_nat i)) in * by lia.
    rewrite IH; [|lia|lia|lia|].
    + replace (Z.to_nat (i + 1)) with (S (Z.to_nat i)) by lia. f_equal. f_equal. f_equal. lia.
    + replace (Z.to_nat (i + 1)) with (S (Z.to_nat i)) by lia. lia.
  - apply Z.ltb_ge in E. assert (i = Z.of_nat (length l)) by lia. subst i.
    rewrite Nat2Z.id, skipn_all. unfold sum_map. cbn [fold_right]. f_equal. f_equal. f_equal. lia.
Qed.

Theorem gen_VarSlice_size : forall c l fuel, (Z.of_nat (length l) < 4611686018427387904)%Z -> (length l < fuel)%nat ->
  (Z.of_N (sum_map (fun x => size c x []) l) < 4611686018427387904)%Z ->
  WTVarIntSliceWrapper_size fuel (vw c) (hdr l) = Ok (Z.of_N (sum_map (fun x => size c x []) l)).
Proof.
  intros c l fuel Hl Hf Hs.
  change (WTVarIntSliceWrapper_size fuel (vw c) (hdr l))
    with (do lr <- sizes_loop "size.loop1" "size.el_1" "size.cd_2" (Some (gcodec_of c)) (hdr l) [] fuel 0%Z 0%Z;
          match lr with LRet v => Ok v | LDone (i, size) => Ok size end).
  rewrite sizes_loop_equiv by (auto; cbn [Z.to_nat skipn]; lia). reflexivity.
Qed.

Theorem gen_ProtoSlice_Size : forall c l tag fuel, (Z.of_nat (length l) < 4611686018427387904)%Z -> (length l < fuel)%nat ->
  (Z.of_N (size (CSliceProto c) (VSlice l) tag) < 4611686018427387904)%Z ->
  ProtoSliceWrapper_Size fuel (prw c) (hdr l) tag = Ok (Z.of_N (size (CSliceProto c) (VSlice l) tag)).
Proof.
  intros c l tag fuel Hl Hf Hs. cbn [size slice_elems] in *.
  change (ProtoSliceWrapper_Size fuel (prw c) (hdr l) tag)
    with (do lr <- sizes_loop "Size.loop1" "Size.el_1" "Size.cd_2" (Some (gcodec_of c)) (hdr l) tag fuel 0%Z 0%Z;
          match lr with LRet v => Ok v | LDone (i, size) => Ok size end).
  rewrite sizes_loop_equiv by (auto; cbn [Z.to_nat skipn]; lia). reflexivity.
Qed.

(** framing under a tag, as WTVarIntSliceWrapper.Size / Append and WTFixedSliceWrapper do it *)
Lemma framed_Size l tag : (0 <= l < 4611686018427387904)%Z -> (Z.of_nat (length tag) < 4294967296)%Z ->
  (if Z.ltb 0 (go_len tag) then Ok (sadd 64 l (sadd 64 (go_len tag) (SizeVarUint (s2u 64 l)))) else Ok l)
  = Ok (Z.of_N (frame_size tag (Z.to_N l))).
Proof.
  intros Hl Ht. unfold frame_size, go_len. destruct tag as [|t tg]; [cbn [length Z.of_nat Z.ltb Z.compare]; f_equal; lia|].
  replace (Z.ltb 0 (Z.of_nat (length (t :: tg)))) with true by (symmetry; apply Z.ltb_lt; cbn [length]; lia).
  rewrite s2u64_nonneg by lia. rewrite gen_SizeVarUint by (unfold two64; lia).
  assert (H10 : size_varuint (Z.to_N l) <= 10).
  { rewrite size_append_varuint by (unfold two64; lia). pose proof (append_varuint_length_bounds (Z.to_N l)). lia. }
  f_equal. unfold len.
  remember (length (t :: tg)) as lt eqn:Elt. clear Elt. remember (size_varuint (Z.to_N l)) as sv eqn:Esv. clear Esv.
  rewrite (sadd64_small (Z.of_nat lt)) by lia. rewrite sadd64_small by lia. lia.
Qed.

Theorem gen_VarSlice_Size : forall c l tag fuel, (Z.of_nat (length l) < 4611686018427387904)%Z -> (length l < fuel)%nat ->
  (Z.of_N (sum_map (fun x => size c x []) l) < 4611686018427387904)%Z -> (Z.of_nat (length tag) < 4294967296)%Z ->
  WTVarIntSliceWrapper_Size fuel (vw c) (hdr l) tag = Ok (Z.of_N (size (CSliceVar c) (VSlice l) tag)).
Proof.
  intros c l tag fuel Hl Hf Hs Ht. unfold WTVarIntSliceWrapper_Size. rewrite gen_VarSlice_size by assumption. cbn [bind size slice_elems].
  rewrite framed_Size by lia. rewrite N2Z.id. reflexivity.
Qed.

Theorem gen_VarSlice_Append : forall c l data tag fuel, (Z.of_nat (length l) < 4611686018427387904)%Z -> (length l < fuel)%nat -> (10 <= fuel)%nat ->
  Forall (fits c) l -> len (flat_map (fun x => enc c x []) l) < 4611686018427387904 ->
  WTVarIntSliceWrapper_Append fuel (vw c) data (hdr l) tag = Ok (data ++ enc (CSliceVar c) (VSlice l) tag).
Proof.
  intros c l data tag fuel Hl Hf Hf10 Hfits Hb. unfold WTVarIntSliceWrapper_Append, go_len. cbn [enc slice_elems]. unfold frame_tag.
  assert (Hsum : sum_map (fun x => size c x []) l = len (flat_map (fun x => enc c x []) l)).
  { apply sum_flat. rewrite Forall_forall in *. intros x Hin. apply size_law. apply Hfits. exact Hin. }
  destruct tag as [|t tg].
  - cbn [length Z.of_nat Z.ltb Z.compare]. rewrite gen_VarSlice_append by assumption. reflexivity.
  - replace (Z.ltb 0 (Z.of_nat (length (t :: tg)))) with true by (symmetry; apply Z.ltb_lt; cbn [length]; lia).
    rewrite gen_VarSlice_size by (auto; rewrite Hsum; lia). cbn [bind].
    rewrite s2u64_nonneg by (rewrite Hsum; lia). rewrite N2Z.id.
    rewrite gen_AppendVarUint64 by (try (rewrite Hsum; unfold two64); lia). cbn [bind].
    rewrite gen_VarSlice_append by assumption. rewrite Hsum. rewrite <- !app_assoc. reflexivity.
Qed.

(** ** fixed-width elements *)
Theorem gen_FixSlice_Size : forall c l tag fuel, size c (VSkip 0) [] = fixed_width c ->
  (Z.of_N (fixed_width c) * Z.of_nat (length l) < 4611686018427387904)%Z -> (Z.of_nat (length tag) < 4294967296)%Z ->
  WTFixedSliceWrapper_Size fuel (fw c) (hdr l) tag = Ok (Z.of_N (size (CSliceFix c) (VSlice l) tag)).
Proof.
  intros c l tag fuel Hw Hs Ht. unfold WTFixedSliceWrapper_Size.
  cbn [fw bsw WTFixedSliceWrapper_BaseSliceWrapper BaseSliceWrapper_Underlying go_itf bind gcodec_of gc_Size hdr sliceHeader_Len size slice_elems].
  unfold go_nilptr. rewrite Hw.
  assert (Hm : smul 64 (Z.of_N (fixed_width c)) (Z.of_nat (length l)) = (Z.of_N (fixed_width c) * Z.of_nat (length l))%Z)
    by (unfold smul; apply swrap64_small; lia).
  rewrite Hm. rewrite framed_Size by lia. f_equal. f_equal. f_equal. lia.
Qed.

Theorem gen_FixSlice_Append : forall c l data tag fuel, size c (VSkip 0) [] = fixed_width c -> is_fixed c = true ->
  (Z.of_nat (length l) < 4611686018427387904)%Z -> (length l < fuel)%nat -> (10 <= fuel)%nat ->
  (Z.of_N (fixed_width c) * Z.of_nat (length l) < 4611686018427387904)%Z ->
  WTFixedSliceWrapper_Append fuel (fw c) data (hdr l) tag = Ok (data ++ enc (CSliceFix c) (VSlice l) tag).
Proof.
  intros c l data tag fuel Hw Hfix Hl Hf Hf10 Hs. unfold WTFixedSliceWrapper_Append, go_len. cbn [enc slice_elems]. unfold frame_tag.
  assert (Hlen : len (flat_map (fun x => enc c x []) l) = fixed_width c * N.of_nat (length l)).
  { rewrite (fixed_flat c l Hfix). reflexivity. }
  destruct tag as [|t tg].
  - cbn [length Z.of_nat Z.ltb Z.compare]. rewrite gen_FixSlice_append by assumption. reflexivity.
  - replace (Z.ltb 0 (Z.of_nat (length (t :: tg)))) with true by (symmetry; apply Z.ltb_lt; cbn [length]; lia).
    rewrite (gen_FixSlice_Size c l [] fuel Hw Hs) by (cbn; lia). cbn [bind size slice_elems frame_size].
    rewrite s2u64_nonneg by lia. rewrite N2Z.id.
    rewrite gen_AppendVarUint64 by (unfold two64; lia). cbn [bind].
    rewrite gen_FixSlice_append by assumption. rewrite Hlen. rewrite <- !app_assoc. reflexivity.
Qed.

(** ** counted slices of length-delimited elements: count, then each element behind its length *)
Definition lsize_loop (u : option gcodec) (h : sliceHeader) :=
  fix loop1 (fuel' : nat) (i : Z) (size : Z) {struct fuel'} : res (lout Z (Z * Z)) :=
      match fuel' with
      | O => Hang "size.loop1"
      | S fuel' =>
        if (Z.ltb i (sliceHeader_Len h)) then
        do el_1 <- go_elem "size.el_1" (sliceHeader_Data h) i;
        do cd_2 <- go_itf "size.cd_2" u;
        let s := (gc_Size cd_2 el_1 []) in
        let size := (sadd 64 size (sadd 64 s (GenCore.SizeVarUint (s2u 64 s)))) in
        let i := (sadd 64 i 1%Z) in
        loop1 fuel' i size
        else Ok (LDone (i, size))
      end.

Definition esz (c : codec) (x : val) : N := let s := size c x [] in s + size_varuint s.

Lemma size_varuint_le10' v : v < two64 -> size_varuint v <= 10.
Proof. intros H. rewrite size_append_varuint by exact H. pose proof (append_varuint_length_bounds v). lia. Qed.

Lemma lsize_loop_equiv c l : (Z.of_nat (length l) < 4611686018427387904)%Z ->
  Forall (fun x => size c x [] < 4611686018427387904) l ->
  forall f i acc, (0 <= i <= Z.of_nat (length l))%Z -> (Z.to_nat (Z.of_nat (length l) - i) < f)%nat -> (0 <= acc)%Z ->
  (acc + Z.of_N (sum_map (esz c) (skipn (Z.to_nat i) l)) < 4611686018427387904)%Z ->
  lsize_loop (Some (gcodec_of c)) (hdr l) f i acc
  = Ok (LDone (Z.of_nat (length l), (acc + Z.of_N (sum_map (esz c) (skipn (Z.to_nat i) l)))%Z)).
Proof.
  intros Hlen Hall. induction f as [|f IH]; intros i acc Hi Hf Hacc Hsum; [lia|].
  cbn [lsize_loop hdr sliceHeader_Len sliceHeader_Data].
  destruct (Z.ltb i (Z.of_nat (length l))) eqn:E.
  - apply Z.ltb_lt in E. rewrite go_elem_ok by lia. cbn [bind go_itf gcodec_of gc_Size].
    rewrite (skipn_nth_cons l (Z.to_nat i)) in * by lia. rewrite sum_map_cons in *.
    set (x := nth (Z.to_nat i) l (VSkip 0)) in *.
    assert (Hx : size c x [] < 4611686018427387904).
    { rewrite Forall_forall in Hall. apply Hall. apply nth_In. lia. }
    unfold esz in Hsum at 1. unfold esz at 1. cbv zeta in *.
    pose proof (size_varuint_le10' (size c x []) ltac:(unfold two64; lia)) as H10.
    rewrite s2u64_nonneg by lia. rewrite N2Z.id. rewrite gen_SizeVarUint by (unfold two64; lia).
    rewrite (sadd64_small i 1) by lia.
    rewrite (sadd64_small (Z.of_N (size c x []))) by lia. rewrite sadd64_small by lia.
    fold (lsize_loop (Some (gcodec_of c)) (hdr l)).
    replace (Z.to_nat (i + 1)) with (S (Z.to_nat i)) in * by lia.
    rewrite IH; [|lia|lia|lia|].
    + replace (Z.to_nat (i + 1)) with (S (Z.to_nat i)) by lia. f_equal. f_equal. f_equal. lia.
    + replace (Z.to_nat (i + 1)) with (S (Z.to_nat i)) by lia. lia.
  - apply Z.ltb_ge in E. assert (i = Z.of_nat (length l)) by lia. subst i.
    rewrite Nat2Z.id, skipn_all. unfold sum_map. cbn [fold_right]. f_equal. f_equal. f_equal. lia.
Qed.

Theorem gen_LenSlice_size : forall c l fuel, (Z.of_nat (length l) < 4611686018427387904)%Z -> (length l < fuel)%nat ->
  Forall (fun x => size c x [] < 4611686018427387904) l ->
  (Z.of_N (sum_map (esz c) l) < 4611686018427387000)%Z ->
  WTLengthSliceWrapper_size fuel (lw c) (hdr l)
  = Ok (Z.of_N (size_varuint (N.of_nat (length l)) + sum_map (esz c) l)).
Proof.
  intros c l fuel Hl Hf Hall Hs.
  change (WTLengthSliceWrapper_size fuel (lw c) (hdr l))
    with (do lr <- lsize_loop (Some (gcodec_of c)) (hdr l) fuel 0%Z (SizeVarUint (s2u 64 (Z.of_nat (length l))));
          match lr with LRet v => Ok v | LDone (i, size) => Ok size end).
  rewrite s2u64_nonneg by lia. rewrite gen_SizeVarUint by (unfold two64; lia).
  replace (Z.to_N (Z.of_nat (length l))) with (N.of_nat (length l)) by lia.
  pose proof (size_varuint_le10' (N.of_nat (length l)) ltac:(unfold two64; lia)) as H10.
  rewrite lsize_loop_equiv by (auto; cbn [Z.to_nat skipn]; lia). cbn [bind Z.to_nat skipn]. f_equal. lia.
Qed.

Theorem gen_LenSlice_Size : forall c l tag fuel, (Z.of_nat (length l) < 4611686018427387904)%Z -> (length l < fuel)%nat ->
  Forall (fun x => size c x [] < 4611686018427387904) l ->
  (Z.of_N (sum_map (esz c) l) < 4611686018427387000)%Z -> (Z.of_nat (length tag) < 4294967296)%Z ->
  WTLengthSliceWrapper_Size fuel (lw c) (hdr l) tag = Ok (Z.of_N (size (CSliceLen c) (VSlice l) tag)).
Proof.
  intros c l tag fuel Hl Hf Hall Hs Ht. unfold WTLengthSliceWrapper_Size. rewrite gen_LenSlice_size by assumption.
  cbn [bind size slice_elems]. fold (esz c). change (fun x => esz c x) with (esz c).
  pose proof (size_varuint_le10' (N.of_nat (length l)) ltac:(unfold two64; lia)) as H10.
  unfold go_len. rewrite sadd64_small by lia. f_equal. unfold len. lia.
Qed.

Definition lappend_loop (F : nat) (u : option gcodec) (h : sliceHeader) :=
  fix loop1 (fuel' : nat) (data : bytes) (i : Z) {struct fuel'} : res (lout bytes (bytes * Z)) :=
      match fuel' with
      | O => Hang "append.loop1"
      | S fuel' =>
        if (Z.ltb i (sliceHeader_Len h)) then
        let ptr_at := i in
        do el_2 <- go_elem "append.el_2" (sliceHeader_Data h) ptr_at;
        do cd_3 <- go_itf "append.cd_3" u;
        do r_4 <- GenCore.AppendVarUint F data (s2u 64 (gc_Size cd_3 el_2 []));
        let data := r_4 in
        do el_5 <- go_elem "append.el_5" (sliceHeader_Data h) ptr_at;
        do cd_6 <- go_itf "append.cd_6" u;
        do r_7 <- gc_Append cd_6 F data el_5 [];
        let data := r_7 in
        let i := (sadd 64 i 1%Z) in
        loop1 fuel' data i
        else Ok (LDone (data, i))
      end.

Lemma lappend_loop_equiv F c l : (10 <= F)%nat -> (Z.of_nat (length l) < 4611686018427387904)%Z ->
  Forall (fun x => fits c x /\ len (enc c x []) < two64) l ->
  forall f data i, (0 <= i <= Z.of_nat (length l))%Z -> (Z.to_nat (Z.of_nat (length l) - i) < f)%nat ->
  lappend_loop F (Some (gcodec_of c)) (hdr l) f data i
  = Ok (LDone (data ++ flat_map (fun x => lenframe (enc c x [])) (skipn (Z.to_nat i) l), Z.of_nat (length l))).
Proof.
  intros HF Hlen Hall. induction f as [|f IH]; intros data i Hi Hf; [lia|].
  cbn [lappend_loop hdr sliceHeader_Len sliceHeader_Data].
  destruct (Z.ltb i (Z.of_nat (length l))) eqn:E.
  - apply Z.ltb_lt in E. rewrite go_elem_ok by lia. cbn [bind go_itf gcodec_of gc_Size gc_Append].
    set (x := nth (Z.to_nat i) l (VSkip 0)).
    assert (Hx : fits c x /\ len (enc c x []) < two64).
    { rewrite Forall_forall in Hall. apply Hall. apply nth_In. lia. }
    destruct Hx as [Hfx Hbx]. rewrite (size_law c x [] Hfx).
    rewrite s2u64_nonneg by (unfold two64 in Hbx; lia). rewrite N2Z.id.
    rewrite gen_AppendVarUint64 by (auto; lia). cbn [bind].
    rewrite go_elem_ok by lia. cbn [bind go_itf gcodec_of gc_Append]. fold x.
    rewrite sadd64_small by lia.
    fold (lappend_loop F (Some (gcodec_of c)) (hdr l)).
    rewrite IH by lia.
    rewrite (skipn_nth_cons l (Z.to_nat i)) by lia. cbn [flat_map]. fold x. unfold lenframe at 2.
    replace (Z.to_nat (i + 1)) with (S (Z.to_nat i)) by lia. rewrite <- !app_assoc. reflexivity.
  - apply Z.ltb_ge in E. assert (i = Z.of_nat (length l)) by lia. subst i.
    rewrite Nat2Z.id, skipn_all. cbn [flat_map]. rewrite app_nil_r. reflexivity.
Qed.

Theorem gen_LenSlice_Append : forall c l data tag fuel, (Z.of_nat (length l) < 4611686018427387904)%Z -> (length l < fuel)%nat -> (10 <= fuel)%nat ->
  Forall (fun x => fits c x /\ len (enc c x []) < two64) l ->
  WTLengthSliceWrapper_Append fuel (lw c) data (hdr l) tag = Ok (data ++ enc (CSliceLen c) (VSlice l) tag).
Proof.
  intros c l data tag fuel Hl Hf Hf10 Hall. unfold WTLengthSliceWrapper_Append.
  change (WTLengthSliceWrapper_append fuel (lw c) (data ++ tag) (hdr l))
    with (do r_1 <- GenCore.AppendVarUint fuel (data ++ tag) (s2u 64 (Z.of_nat (length l)));
          do lr <- lappend_loop fuel (Some (gcodec_of c)) (hdr l) fuel r_1 0%Z;
          match lr with LRet v => Ok v | LDone (data, i) => Ok data end).
  rewrite s2u64_nonneg by lia. rewrite gen_AppendVarUint64 by (unfold two64; lia). cbn [bind].
  rewrite lappend_loop_equiv by (auto; lia). cbn [bind enc slice_elems Z.to_nat skipn].
  replace (Z.to_N (Z.of_nat (length l))) with (N.of_nat (length l)) by lia. rewrite <- !app_assoc. reflexivity.
Qed.

(** non-vacuity: the translated code on concrete slices *)
Example gen_slice_ex :
  WTVarIntSliceWrapper_Append 20 (vw (CInt 64)) [] (hdr [VInt 1; VInt (-1); VInt 300]) [10] = Ok [10; 4; 2; 1; 216; 4]
  /\ WTLengthSliceWrapper_Append 20 (lw CString) [] (hdr [VStr [97]; VStr []]) [11] = Ok [11; 2; 1; 97; 0]
  /\ ProtoSliceWrapper_Append 20 (prw CString) [] (hdr [VStr [97]; VStr []]) [10] = Ok [10; 1; 97; 10; 0]
  /\ WTFixedSliceWrapper_Size 20 (fw CF32) (hdr [VF32 0; VF32 1]) [10] = Ok 10%Z.
Proof. vm_compute. repeat split; reflexivity. Qed.

(** ** reading packed and fixed-width elements: count, make room, read element by element *)
From Plenc Require Import WireProofs DecBase DecProofs.

(** the Go-visible value of a slice header: the first Len elements of its backing array *)
Definition hval (h : sliceHeader) : val := VSlice (firstn (Z.to_nat (sliceHeader_Len h)) (slice_elems (sliceHeader_Data h))).

(** [n] element reads, each on what remains *)
Fixpoint elems_spec (decf : decoder) (wt : N) (z : val) (n : nat) (rest : bytes) (consumed : N) : res (list val * N) :=
  match n with
  | O => Ok ([], consumed)
  | S n' =>
    do (x, used) <- decf rest wt z;
    do rest1 <- go_drop "SliceWrapper.Read data[offset:]" used rest;
    do (xs, c') <- elems_spec decf wt z n' rest1 (consumed + used);
    Ok (x :: xs, c')
  end.

Lemma read_elems_spec decf wt z : forall n f rest consumed acc, (n < f)%nat ->
  read_elems decf wt z f (N.of_nat n) rest consumed acc
  = match elems_spec decf wt z n rest consumed with
    | Ok (xs, c') => Ok (rev acc ++ xs, c')
    | Err => Err | Panic s => Panic s | Hang s => Hang s | Blowup s => Blowup s
    end.
Proof.
  induction n as [|n IH]; intros f rest consumed acc Hf; (destruct f as [|f]; [lia|]).
  - cbn [read_elems elems_spec N.of_nat N.eqb]. rewrite app_nil_r. reflexivity.
  - cbn [elems_spec]. unfold read_elems; fold read_elems.
    replace (N.of_nat (S n) =? 0) with false by (symmetry; apply N.eqb_neq; lia).
    destruct (decf rest wt z) as [[x used]| | | |]; cbn [bind]; try reflexivity.
    destruct (go_drop "SliceWrapper.Read data[offset:]" used rest) as [rest1| | | |]; cbn [bind]; try reflexivity.
    replace (N.of_nat (S n) - 1) with (N.of_nat n) by lia. rewrite IH by lia.
    destruct (elems_spec decf wt z n rest1 (consumed + used)) as [[xs c']| | | |]; cbn [bind]; try reflexivity.
    cbn [rev]. rewrite <- app_assoc. reflexivity.
Qed.

Definition rd_loop (s1 s2 s3 s4 s5 : string) (F : nat) (u : option gcodec) (data : bytes) (wtz : Z) :=
  fix loop2 (fuel' : nat) (i : Z) (offset : Z) (ptr : sliceHeader) {struct fuel'} : res (lout (sliceHeader * Z) (Z * Z * sliceHeader)) :=
        match fuel' with
        | O => Hang s1
        | S fuel' =>
          if (Z.ltb i (sliceHeader_Len ptr)) then
          do sl_2 <- go_slice_from s2 data offset;
          do el_4 <- go_elem s3 (sliceHeader_Data ptr) i;
          do cd_3 <- go_itf s4 u;
          do rd_5 <- gc_Read cd_3 F sl_2 el_4 wtz;
          let '(pv_6, n) := rd_5 in
          do arr_7 <- go_set_elem s5 (sliceHeader_Data ptr) i pv_6;
          let ptr := set_sliceHeader_Data ptr arr_7 in
          let offset := (sadd 64 offset n) in
          let i := (sadd 64 i 1%Z) in
          loop2 fuel' i offset ptr
          else Ok (LDone (i, offset, ptr))
        end.

Definition lift_hdr (cnt cap : Z) (pre post : list val) (r : res (list val * N)) : res (sliceHeader * Z) :=
  match r with
  | Ok (xs, used) => Ok (mksliceHeader (VSlice (pre ++ xs ++ post)) cnt cap, Z.of_N used)
  | Err => Err | Panic s => Panic s | Hang s => Hang s | Blowup s => Blowup s
  end.

Lemma go_slice_from_ok' site (data : bytes) off : (0 <= off <= Z.of_nat (length data))%Z ->
  go_slice_from site data off = Ok (skipn (Z.to_nat off) data).
Proof.
  intros H. unfold go_slice_from, go_len.
  replace ((off <? 0) || (Z.of_nat (length data) <? off))%Z with false; [reflexivity|].
  symmetry. apply orb_false_iff. split; apply Z.ltb_ge; lia.
Qed.

Lemma go_set_elem_ok site (l : list val) i x : (0 <= i < Z.of_nat (length l))%Z ->
  go_set_elem site (VSlice l) i x = Ok (VSlice (firstn (Z.to_nat i) l ++ x :: skipn (S (Z.to_nat i)) l)).
Proof.
  intros H. unfold go_set_elem, go_set_nth, go_len. cbn [slice_elems].
  replace ((i <? 0) || (Z.of_nat (length l) <=? i))%Z with false
    by (symmetry; apply orb_false_iff; split; [apply Z.ltb_ge|apply Z.leb_gt]; lia).
  reflexivity.
Qed.

Lemma firstn_upd (l : list val) i x : (i < length l)%nat ->
  firstn (S i) (firstn i l ++ x :: skipn (S i) l) = firstn i l ++ [x].
Proof.
  intros H. replace (S i) with (length (firstn i l) + 1)%nat at 1 by (rewrite firstn_length; lia).
  rewrite firstn_app_2. reflexivity.
Qed.
Lemma skipn_upd (l : list val) i k x : (i < k)%nat -> (i < length l)%nat ->
  skipn k (firstn i l ++ x :: skipn (S i) l) = skipn k l.
Proof.
  intros Hk Hl. rewrite skipn_app. rewrite firstn_length. replace (Init.Nat.min i (length l)) with i by lia.
  rewrite (skipn_all2 (firstn i l)) by (rewrite firstn_length; lia). cbn [app].
  replace (k - i)%nat with (S (k - i - 1)) by lia.
  change (skipn (S (k - i - 1)) (x :: skipn (S i) l)) with (skipn (k - i - 1) (skipn (S i) l)).
  rewrite skipn_skipn'. f_equal. lia.
Qed.

Section RdLoop.
Variables (s1 s2 s3 s4 s5 : string) (F : nat) (c : codec) (data : bytes) (wt : N).
Hypothesis Hlen : (Z.of_nat (length data) < 4611686018427387904)%Z.
(** the element codec overwrites: what it decodes does not depend on what the element held *)
Hypothesis Hins : forall d w p q, dec c d w p = dec c d w q.
Hypothesis Hsafe : dsafe (S (length data)) (dec c).

Lemma rd_loop_equiv : forall n f i offset arr cnt cap,
  (0 <= i)%Z -> cnt = (i + Z.of_nat n)%Z -> (cnt <= Z.of_nat (length arr))%Z -> (cnt < 4611686018427387904)%Z ->
  (0 <= offset <= Z.of_nat (length data))%Z -> (n < f)%nat ->
  (do lr <- rd_loop s1 s2 s3 s4 s5 F (Some (gcodec_of c)) data (Z.of_N wt) f i offset (mksliceHeader (VSlice arr) cnt cap);
   match lr with LRet v => Ok v | LDone (i, offset, ptr) => Ok (ptr, offset) end)
  = lift_hdr cnt cap (firstn (Z.to_nat i) arr) (skipn (Z.to_nat cnt) arr)
      (elems_spec (dec c) wt (zero c) n (skipn (Z.to_nat offset) data) (Z.to_N offset)).
Proof.
  induction n as [|n IH]; intros f i offset arr cnt cap Hi Hcnt Hle Hbig Hoff Hf; (destruct f as [|f]; [lia|]).
  - cbn [rd_loop sliceHeader_Len elems_spec lift_hdr].
    replace (Z.ltb i cnt) with false by (symmetry; apply Z.ltb_ge; lia).
    assert (Hci : cnt = i) by lia. clear Hcnt. subst cnt.
    cbn [bind app]. rewrite firstn_skipn. f_equal. f_equal. lia.
  - cbn [rd_loop sliceHeader_Len sliceHeader_Data elems_spec].
    replace (Z.ltb i cnt) with true by (symmetry; apply Z.ltb_lt; lia).
    rewrite go_slice_from_ok' by lia. cbn [bind]. rewrite go_elem_ok by lia.
    cbn [bind go_itf gcodec_of gc_Read]. rewrite N2Z.id.
    set (rest := skipn (Z.to_nat offset) data).
    rewrite (Hins rest wt (nth (Z.to_nat i) arr (VSkip 0)) (zero c)).
    assert (Hrl : (length rest < S (length data))%nat) by (unfold rest; rewrite skipn_length; lia).
    pose proof (Hsafe rest wt (zero c) Hrl) as Hg.
    destruct (dec c rest wt (zero c)) as [[x used]| | | |]; cbn [good lift_dec bind lift_hdr] in *; try contradiction; [|reflexivity].
    unfold len in Hg. assert (Hul : used <= N.of_nat (length data - Z.to_nat offset)) by (unfold rest in Hg; rewrite skipn_length in Hg; exact Hg).
    rewrite go_set_elem_ok by lia. cbn [bind set_sliceHeader_Data sliceHeader_Len sliceHeader_Cap].
    destruct (go_drop_ok "SliceWrapper.Read data[offset:]"%string used rest) as [E1 L1]; [unfold len, rest; rewrite skipn_length; lia|].
    rewrite E1. cbn [bind].
    rewrite (sadd64_small offset) by lia. rewrite (sadd64_small i 1) by lia.
    fold (rd_loop s1 s2 s3 s4 s5 F (Some (gcodec_of c)) data (Z.of_N wt)).
    unfold set_sliceHeader_Data. cbn [sliceHeader_Len sliceHeader_Cap].
    match goal with |- context [mksliceHeader (VSlice ?a) cnt cap] => remember a as arr' eqn:Earr end.
    change gval with val in Earr.
    assert (Hal : length arr' = length arr).
    { subst arr'. rewrite app_length, firstn_length. cbn [length]. rewrite skipn_length. lia. }
    rewrite (IH f (i + 1)%Z (offset + Z.of_N used)%Z arr' cnt cap) by lia.
    unfold rest. rewrite skipn_skipn'.
    replace (Z.to_nat offset + N.to_nat used)%nat with (Z.to_nat (offset + Z.of_N used)) by lia.
    replace (Z.to_N offset + used) with (Z.to_N (offset + Z.of_N used)) by lia.
    destruct (elems_spec (dec c) wt (zero c) n (skipn (Z.to_nat (offset + Z.of_N used)) data) (Z.to_N (offset + Z.of_N used))) as [[xs c']| | | |]; cbn [bind lift_hdr]; try reflexivity.
    f_equal. f_equal. f_equal. f_equal.
    assert (Hf1 : firstn (Z.to_nat (i + 1)) arr' = firstn (Z.to_nat i) arr ++ [x]).
    { subst arr'. replace (Z.to_nat (i + 1)) with (S (Z.to_nat i)) by lia. apply firstn_upd. lia. }
    assert (Hs1 : skipn (Z.to_nat cnt) arr' = skipn (Z.to_nat cnt) arr).
    { subst arr'. apply skipn_upd; lia. }
    rewrite Hf1, Hs1. rewrite <- app_assoc. reflexivity.
Qed.
End RdLoop.

Lemma elems_spec_length decf wt z : forall n rest consumed xs c', elems_spec decf wt z n rest consumed = Ok (xs, c') -> length xs = n.
Proof.
  induction n as [|n IH]; intros rest consumed xs c' H; cbn [elems_spec] in H.
  - inversion H. reflexivity.
  - destruct (decf rest wt z) as [[x used]| | | |]; cbn [bind] in H; try discriminate.
    destruct (go_drop "SliceWrapper.Read data[offset:]" used rest) as [rest1| | | |]; cbn [bind] in H; try discriminate.
    destruct (elems_spec decf wt z n rest1 (consumed + used)) as [[ys c2]| | | |] eqn:E; cbn [bind] in H; try discriminate.
    inversion H; subst. cbn [length]. f_equal. eapply IH. exact E.
Qed.

(** a well-formed slice header: Data is an array of Cap elements *)
Definition hdr_ok (h : sliceHeader) : Prop :=
  exists arr, sliceHeader_Data h = VSlice arr /\ sliceHeader_Cap h = Z.of_nat (length arr).

Definition lift_hval (r : res (sliceHeader * Z)) : res (gval * Z) :=
  match r with
  | Ok (h, n) => Ok (hval h, n)
  | Err => Err | Panic s => Panic s | Hang s => Hang s | Blowup s => Blowup s
  end.

(** the two ways of making room, then the element loop: what the Go-visible slice is afterwards *)
Lemma room_then_read s1 s2 s3 s4 s5 F c data wt h cnt :
  (Z.of_nat (length data) < 4611686018427387904)%Z ->
  (forall d w p q, dec c d w p = dec c d w q) -> dsafe (S (length data)) (dec c) ->
  hdr_ok h -> (0 <= cnt <= Z.of_nat (length data))%Z -> (length data < F)%nat ->
  lift_hval
    (if Z.ltb (sliceHeader_Cap h) cnt
     then (do lr <- rd_loop s1 s2 s3 s4 s5 F (Some (gcodec_of c)) data (Z.of_N wt) F 0%Z 0%Z
                      (set_sliceHeader_Len (set_sliceHeader_Cap (set_sliceHeader_Data h (go_new_array (zero c) (s2s 64 cnt))) (s2s 64 cnt)) cnt);
           match lr with LRet v => Ok v | LDone (i, offset, ptr) => Ok (ptr, offset) end)
     else (do lr <- rd_loop s1 s2 s3 s4 s5 F (Some (gcodec_of c)) data (Z.of_N wt) F 0%Z 0%Z (set_sliceHeader_Len h cnt);
           match lr with LRet v => Ok v | LDone (i, offset, ptr) => Ok (ptr, offset) end))
  = match elems_spec (dec c) wt (zero c) (Z.to_nat cnt) data 0 with
    | Ok (xs, used) => Ok (VSlice xs, Z.of_N used)
    | Err => Err | Panic s => Panic s | Hang s => Hang s | Blowup s => Blowup s
    end.
Proof.
  intros Hlen Hins Hsafe (arr & HD & HC) Hcnt HF. destruct h as [d l cp]. cbn [sliceHeader_Data sliceHeader_Cap] in HD, HC. subst d cp.
  cbn [sliceHeader_Cap set_sliceHeader_Len set_sliceHeader_Cap set_sliceHeader_Data sliceHeader_Data sliceHeader_Len].
  assert (Hs : s2s 64 cnt = cnt) by (unfold s2s; apply swrap64_small; lia). rewrite Hs.
  assert (Hfin : forall arr0 cap0, (cnt <= Z.of_nat (length arr0))%Z ->
     lift_hval (do lr <- rd_loop s1 s2 s3 s4 s5 F (Some (gcodec_of c)) data (Z.of_N wt) F 0%Z 0%Z (mksliceHeader (VSlice arr0) cnt cap0);
                match lr with LRet v => Ok v | LDone (i, offset, ptr) => Ok (ptr, offset) end)
     = match elems_spec (dec c) wt (zero c) (Z.to_nat cnt) data 0 with
       | Ok (xs, used) => Ok (VSlice xs, Z.of_N used)
       | Err => Err | Panic s => Panic s | Hang s => Hang s | Blowup s => Blowup s
       end).
  { intros arr0 cap0 Hle.
    rewrite (rd_loop_equiv s1 s2 s3 s4 s5 F c data wt Hlen Hins Hsafe (Z.to_nat cnt) F 0%Z 0%Z arr0 cnt cap0) by lia.
    cbn [Z.to_nat skipn Z.to_N firstn app].
    destruct (elems_spec (dec c) wt (zero c) (Z.to_nat cnt) data 0) as [[xs used]| | | |] eqn:E; cbn [lift_hdr lift_hval]; try reflexivity.
    pose proof (elems_spec_length _ _ _ _ _ _ _ _ E) as Hxl.
    unfold hval. cbn [sliceHeader_Len sliceHeader_Data slice_elems].
    rewrite app_nil_l. rewrite <- Hxl at 1. rewrite firstn_app, firstn_all, Nat.sub_diag. cbn [firstn]. rewrite app_nil_r. reflexivity. }
  destruct (Z.ltb (Z.of_nat (length arr)) cnt) eqn:Ecap.
  - unfold go_new_array. apply Hfin. rewrite repeat_length. lia.
  - apply Z.ltb_ge in Ecap. apply Hfin. exact Ecap.
Qed.

(** *** WTVarIntSliceWrapper.Read *)
Definition count_loop (data : bytes) :=
  fix loop1 (fuel' : nat) (count_ : Z) (offset : Z) {struct fuel'} : res (lout (sliceHeader * Z) (Z * Z)) :=
      match fuel' with
      | O => Hang "Read.loop1"
      | S fuel' =>
        if (Z.ltb offset (go_len data)) then
        do sl_1 <- go_slice_from "Read.sl_1" data offset;
        let '(_, n) := (GenCore.ReadVarUint sl_1) in
        if (Z.leb n 0%Z) then
          Err
        else
          let offset := (sadd 64 offset n) in
        let count_ := (sadd 64 count_ 1%Z) in
        loop1 fuel' count_ offset
        else Ok (LDone (count_, offset))
      end.

Lemma count_loop_equiv data : (Z.of_nat (length data) < 4611686018427387904)%Z ->
  forall f cnt offset, (0 <= offset <= Z.of_nat (length data))%Z -> (0 <= cnt <= offset)%Z ->
  (length (skipn (Z.to_nat offset) data) < f)%nat ->
  count_loop data f cnt offset
  = match count_varints f (skipn (Z.to_nat offset) data) (Z.to_N cnt) with
    | Ok k => Ok (LDone (Z.of_N k, Z.of_nat (length data)))
    | Err => Err | Panic s => Panic s | Hang s => Hang s | Blowup s => Blowup s
    end.
Proof.
  intros Hlen. induction f as [|f IH]; intros cnt offset Hoff Hcnt Hf; [lia|].
  cbn [count_loop]. unfold go_len.
  set (rest := skipn (Z.to_nat offset) data) in *.
  assert (Hrl : length rest = (length data - Z.to_nat offset)%nat) by (unfold rest; apply skipn_length).
  destruct (Z.ltb offset (Z.of_nat (length data))) eqn:E.
  - apply Z.ltb_lt in E. destruct rest as [|b0 r0] eqn:Er; [cbn [length] in Hrl; lia|]. rewrite <- Er in *.
    rewrite go_slice_from_ok' by lia. cbn [bind]. fold rest. rewrite gen_ReadVarUint.
    replace (count_varints (S f) rest (Z.to_N cnt)) with
      (let '(_, n) := read_varuint rest in
       if (n <=? 0)%Z then Err else
       do rest1 <- go_drop "WTVarIntSliceWrapper.Read data[offset:]" (Z.to_N n) rest;
       count_varints f rest1 (Z.to_N cnt + 1)) by (rewrite Er; reflexivity).
    destruct (read_varuint rest) as [v n] eqn:Erv. pose proof (read_varuint_n rest v n Erv) as Hn. unfold len in Hn.
    destruct (Z.leb n 0) eqn:En0; [reflexivity|]. apply Z.leb_gt in En0.
    destruct (go_drop_ok "WTVarIntSliceWrapper.Read data[offset:]"%string (Z.to_N n) rest ltac:(unfold len; lia)) as [E1 L1].
    rewrite E1. cbn [bind].
    rewrite (sadd64_small offset) by lia. rewrite (sadd64_small cnt) by lia.
    fold (count_loop data).
    rewrite IH; [| lia | lia | rewrite skipn_length; lia].
    unfold rest. rewrite skipn_skipn'. replace (Z.to_nat offset + N.to_nat (Z.to_N n))%nat with (Z.to_nat (offset + n)) by lia.
    replace (Z.to_N cnt + 1) with (Z.to_N (cnt + 1)) by lia. reflexivity.
  - apply Z.ltb_ge in E. destruct rest as [|b r]; [|cbn [length] in Hrl; lia].
    cbn [count_varints]. f_equal. f_equal. f_equal; lia.
Qed.

Lemma count_varints_le : forall f rest count k, (length rest < f)%nat -> count_varints f rest count = Ok k -> k <= count + len rest.
Proof.
  intros f rest count k Hf H. pose proof (count_varints_safe f rest count Hf) as S0. rewrite H in S0. exact S0.
Qed.

Theorem gen_VarSlice_Read : forall c data h wt,
  (Z.of_nat (length data) < 4611686018427387904)%Z ->
  (forall d w p q, dec c d w p = dec c d w q) -> dsafe (S (length data)) (dec c) -> hdr_ok h ->
  lift_hval (WTVarIntSliceWrapper_Read (S (length data)) (vw c) data h wt)
  = lift_dec (dec (CSliceVar c) data (Z.to_N wt) (hval h)).
Proof.
  intros c data h wt Hlen Hins Hsafe Hok.
  change (WTVarIntSliceWrapper_Read (S (length data)) (vw c) data h wt)
    with (do lr <- count_loop data (S (length data)) 0%Z 0%Z;
          match lr with
          | LRet v => Ok v
          | LDone (count_, offset) =>
            if Z.ltb (sliceHeader_Cap h) count_
            then (do lr <- rd_loop "Read.loop2" "Read.sl_2" "Read.el_4" "Read.cd_3" "Read.arr_7" (S (length data)) (Some (gcodec_of c)) data 0%Z (S (length data)) 0%Z 0%Z
                             (set_sliceHeader_Len (set_sliceHeader_Cap (set_sliceHeader_Data h (go_new_array (zero c) (s2s 64 count_))) (s2s 64 count_)) count_);
                  match lr with LRet v => Ok v | LDone (i, offset, ptr) => Ok (ptr, offset) end)
            else (do lr <- rd_loop "Read.loop2" "Read.sl_2" "Read.el_4" "Read.cd_3" "Read.arr_7" (S (length data)) (Some (gcodec_of c)) data 0%Z (S (length data)) 0%Z 0%Z (set_sliceHeader_Len h count_);
                  match lr with LRet v => Ok v | LDone (i, offset, ptr) => Ok (ptr, offset) end)
          end).
  rewrite (count_loop_equiv data Hlen (S (length data)) 0%Z 0%Z); [|lia|lia|change (Z.to_nat 0) with 0%nat; cbn [skipn]; lia].
  change (Z.to_nat 0) with 0%nat. cbn [skipn Z.to_N dec].
  destruct (count_varints (S (length data)) data 0) as [k| | | |] eqn:Ec; cbn [bind lift_hval lift_dec]; try reflexivity.
  pose proof (count_varints_le (S (length data)) data 0 k ltac:(lia) Ec) as Hk. unfold len in Hk.
  unfold alloc_guard. replace (k <=? len data) with true by (symmetry; apply N.leb_le; unfold len; lia). cbn [bind].
  pose proof (room_then_read "Read.loop2" "Read.sl_2" "Read.el_4" "Read.cd_3" "Read.arr_7" (S (length data)) c data Wire.WTVarInt h (Z.of_N k)
                Hlen Hins Hsafe Hok ltac:(lia) ltac:(lia)) as R.
  change (Z.of_N Wire.WTVarInt) with 0%Z in R. rewrite R. clear R.
  replace (Z.to_nat (Z.of_N k)) with (N.to_nat k) by lia.
  pose proof (read_elems_spec (dec c) Wire.WTVarInt (zero c) (N.to_nat k) (S (length data)) data 0 [] ltac:(lia)) as RS.
  rewrite N2Nat.id in RS. rewrite RS. clear RS.
  destruct (elems_spec (dec c) Wire.WTVarInt (zero c) (N.to_nat k) data 0) as [[xs used]| | | |]; reflexivity.
Qed.

(** *** WTFixedSliceWrapper.Read *)
Theorem gen_FixSlice_Read : forall c data h wt,
  (Z.of_nat (length data) < 4611686018427387904)%Z -> size c (VSkip 0) [] = fixed_width c -> fixed_width c <> 0 ->
  (forall d w p q, dec c d w p = dec c d w q) -> dsafe (S (length data)) (dec c) -> hdr_ok h ->
  lift_hval (WTFixedSliceWrapper_Read (S (length data)) (fw c) data h wt)
  = lift_dec (dec (CSliceFix c) data (Z.to_N wt) (hval h)).
Proof.
  intros c data h wt Hlen Hw E0 Hins Hsafe Hok.
  change (WTFixedSliceWrapper_Read (S (length data)) (fw c) data h wt)
    with (do dv_2 <- go_sdiv "Read.dv_2" 64 (go_len data) (Z.of_N (size c go_nilptr []));
          if Z.ltb (sliceHeader_Cap h) dv_2
          then (do lr <- rd_loop "Read.loop1" "Read.sl_3" "Read.el_6" "Read.cd_5" "Read.arr_9" (S (length data)) (Some (gcodec_of c)) data (Z.of_N (wire c)) (S (length data)) 0%Z 0%Z
                           (set_sliceHeader_Len (set_sliceHeader_Cap (set_sliceHeader_Data h (go_new_array (zero c) (s2s 64 dv_2))) (s2s 64 dv_2)) dv_2);
                match lr with LRet v => Ok v | LDone (i, offset, ptr) => Ok (ptr, offset) end)
          else (do lr <- rd_loop "Read.loop1" "Read.sl_3" "Read.el_6" "Read.cd_5" "Read.arr_9" (S (length data)) (Some (gcodec_of c)) data (Z.of_N (wire c)) (S (length data)) 0%Z 0%Z (set_sliceHeader_Len h dv_2);
                match lr with LRet v => Ok v | LDone (i, offset, ptr) => Ok (ptr, offset) end)).
  unfold go_nilptr. rewrite Hw. unfold go_sdiv, go_len. cbn [dec].
  replace (Z.eqb (Z.of_N (fixed_width c)) 0) with false by (symmetry; apply Z.eqb_neq; lia).
  replace (fixed_width c =? 0) with false by (symmetry; apply N.eqb_neq; exact E0). cbn [bind].
  set (w := fixed_width c) in *.
  assert (Hq : sdiv 64 (Z.of_nat (length data)) (Z.of_N w) = Z.of_N (len data / w)).
  { unfold sdiv. rewrite Z.quot_div_nonneg by lia. rewrite swrap64_small.
    - unfold len. rewrite N2Z.inj_div. f_equal. lia.
    - assert (0 <= Z.of_nat (length data) / Z.of_N w <= Z.of_nat (length data))%Z.
      { split; [apply Z.div_pos; lia|]. apply Z.div_le_upper_bound; nia. }
      lia. }
  rewrite Hq. set (k := len data / w).
  assert (Hk : k <= len data) by (unfold k; apply N.div_le_upper_bound; nia).
  unfold len in Hk.
  unfold alloc_guard. replace (k <=? len data) with true by (symmetry; apply N.leb_le; unfold len; lia). cbn [bind].
  rewrite (room_then_read "Read.loop1" "Read.sl_3" "Read.el_6" "Read.cd_5" "Read.arr_9" (S (length data)) c data (wire c) h (Z.of_N k)
             Hlen Hins Hsafe Hok ltac:(lia) ltac:(lia)).
  replace (Z.to_nat (Z.of_N k)) with (N.to_nat k) by lia.
  pose proof (read_elems_spec (dec c) (wire c) (zero c) (N.to_nat k) (S (length data)) data 0 [] ltac:(lia)) as RS.
  rewrite N2Nat.id in RS. rewrite RS. clear RS.
  destruct (elems_spec (dec c) (wire c) (zero c) (N.to_nat k) data 0) as [[xs used]| | | |]; reflexivity.
Qed.

(** a zero-width element codec: the division panics, in the code as in the model *)
Theorem gen_FixSlice_Read_zero_width : forall c data h wt, size c (VSkip 0) [] = 0 ->
  exists site, WTFixedSliceWrapper_Read (S (length data)) (fw c) data h wt = Panic site.
Proof.
  intros c data h wt Hw. eexists. unfold WTFixedSliceWrapper_Read.
  cbn [fw bsw WTFixedSliceWrapper_BaseSliceWrapper BaseSliceWrapper_Underlying go_itf bind gcodec_of gc_Size].
  unfold go_nilptr. rewrite Hw. reflexivity.
Qed.

(** non-vacuity: a re-used array with stale elements beyond and below the new length *)
Example gen_slice_read_ex :
  lift_hval (WTVarIntSliceWrapper_Read 4 (vw (CInt 64)) [2; 1; 3] (mksliceHeader (VSlice [VInt 9; VInt 9; VInt 9; VInt 9]) 4 4) 2)
  = Ok (VSlice [VInt 1; VInt (-1); VInt (-2)], 3%Z)
  /\ lift_hval (WTVarIntSliceWrapper_Read 3 (vw (CInt 64)) [2; 1] (mksliceHeader (VSlice [VInt 9]) 1 1) 2)
     = Ok (VSlice [VInt 1; VInt (-1)], 2%Z)
  /\ lift_hval (WTFixedSliceWrapper_Read 9 (fw CF32) [0; 0; 128; 63; 0; 0; 0; 64] (mksliceHeader (VSlice []) 0 0) 2)
     = Ok (VSlice [VF32 1065353216; VF32 1073741824], 8%Z).
Proof. vm_compute. repeat split; reflexivity. Qed.

(** ** the repeated form read back: one element appended per call (ProtoSliceWrapper.Read, WTLengthSliceWrapper.readAsWTLength) *)
Definition hdr_wf (h : sliceHeader) : Prop :=
  exists arr, sliceHeader_Data h = VSlice arr /\ sliceHeader_Cap h = Z.of_nat (length arr)
              /\ (0 <= sliceHeader_Len h <= sliceHeader_Cap h)%Z /\ (sliceHeader_Cap h < 2305843009213693952)%Z.

Definition one_tail (s1 s2 s3 s4 : string) (F : nat) (u : option gcodec) (z : gval) (data : bytes) (ptr : sliceHeader) : res (sliceHeader * Z) :=
  let dptr_at := (sliceHeader_Len ptr) in
  do arr_1 <- go_set_elem s1 (sliceHeader_Data ptr) dptr_at z;
  let ptr := set_sliceHeader_Data ptr arr_1 in
  do el_3 <- go_elem s2 (sliceHeader_Data ptr) dptr_at;
  do cd_2 <- go_itf s3 u;
  do rd_4 <- gc_Read cd_2 F data el_3 2%Z;
  let '(pv_5, n) := rd_4 in
  do arr_6 <- go_set_elem s4 (sliceHeader_Data ptr) dptr_at pv_5;
  let ptr := set_sliceHeader_Data ptr arr_6 in
  let ptr := set_sliceHeader_Len ptr (sadd 64 (sliceHeader_Len ptr) 1%Z) in
   Ok (ptr, n).

Lemma firstn_upd' (l : list val) i x : (i < length l)%nat ->
  firstn (S i) (firstn i l ++ x :: skipn (S i) l) = firstn i l ++ [x].
Proof. apply firstn_upd. Qed.

Lemma one_tail_equiv s1 s2 s3 s4 F c data a2 len2 cap2 : (0 <= len2 < Z.of_nat (length a2))%Z -> (len2 < 4611686018427387904)%Z ->
  lift_hval (one_tail s1 s2 s3 s4 F (Some (gcodec_of c)) (zero c) data (mksliceHeader (VSlice a2) len2 cap2))
  = match dec c data Wire.WTLength (zero c) with
    | Ok (x, used) => Ok (VSlice (firstn (Z.to_nat len2) a2 ++ [x]), Z.of_N used)
    | Err => Err | Panic s => Panic s | Hang s => Hang s | Blowup s => Blowup s
    end.
Proof.
  intros Hl Hb. unfold one_tail. cbn [sliceHeader_Len sliceHeader_Data].
  rewrite go_set_elem_ok by lia. cbn [bind set_sliceHeader_Data sliceHeader_Data sliceHeader_Len].
  set (a3 := firstn (Z.to_nat len2) a2 ++ zero c :: skipn (S (Z.to_nat len2)) a2).
  assert (Hl3 : length a3 = length a2).
  { unfold a3. rewrite app_length, firstn_length. cbn [length]. rewrite skipn_length. lia. }
  assert (Hn3 : nth (Z.to_nat len2) a3 (VSkip 0) = zero c).
  { unfold a3. rewrite app_nth2 by (rewrite firstn_length; lia). rewrite firstn_length.
    replace (Z.to_nat len2 - Init.Nat.min (Z.to_nat len2) (length a2))%nat with 0%nat by lia. reflexivity. }
  match goal with |- context [go_elem s2 (VSlice ?a) len2] => change a with a3 end.
  rewrite go_elem_ok by lia. rewrite Hn3. cbn [bind go_itf gcodec_of gc_Read]. change (Z.to_N 2) with Wire.WTLength.
  destruct (dec c data Wire.WTLength (zero c)) as [[x used]| | | |]; cbn [lift_dec bind lift_hval]; try reflexivity.
  match goal with |- context [go_set_elem s4 (VSlice ?a) len2 x] => change a with a3 end.
  rewrite go_set_elem_ok by lia. cbn [bind lift_hval].
  unfold hval, set_sliceHeader_Len, set_sliceHeader_Data. cbn [sliceHeader_Len sliceHeader_Data sliceHeader_Cap slice_elems].
  rewrite sadd64_small by lia.
  f_equal. f_equal. f_equal.
  replace (Z.to_nat (len2 + 1)) with (S (Z.to_nat len2)) by lia.
  assert (Hf3 : firstn (Z.to_nat len2) a3 = firstn (Z.to_nat len2) a2).
  { unfold a3. rewrite firstn_app. rewrite firstn_length. replace (Z.to_nat len2 - Init.Nat.min (Z.to_nat len2) (length a2))%nat with 0%nat by lia.
    cbn [firstn]. rewrite app_nil_r. rewrite firstn_firstn. f_equal. lia. }
  rewrite <- Hf3. apply firstn_upd. lia.
Qed.

(** what making room gives: a header whose first Len elements are those of the old one, with an unused element after them *)
Definition grown (c : codec) (h : sliceHeader) : sliceHeader :=
  if Z.eqb (sliceHeader_Cap h) (sliceHeader_Len h) then
    let cap := smul 64 (sliceHeader_Cap h) 2 in
    let cap := if Z.eqb cap 0 then 8%Z else cap in
    let nh := mksliceHeader (go_new_array (zero c) (s2s 64 cap)) (sliceHeader_Len h) cap in
    let nh := if negb (Z.eqb (sliceHeader_Len h) 0)
              then set_sliceHeader_Data nh (go_copy_elems (sliceHeader_Data nh) (sliceHeader_Data h) (Z.min (sliceHeader_Len nh) (sliceHeader_Len h)))
              else nh in
    set_sliceHeader_Cap (set_sliceHeader_Len nh (sliceHeader_Len h)) cap
  else h.

Lemma grown_ok c h : hdr_wf h ->
  exists a2 cap2, grown c h = mksliceHeader (VSlice a2) (sliceHeader_Len h) cap2
    /\ (sliceHeader_Len h < Z.of_nat (length a2))%Z
    /\ firstn (Z.to_nat (sliceHeader_Len h)) a2 = firstn (Z.to_nat (sliceHeader_Len h)) (slice_elems (sliceHeader_Data h)).
Proof.
  intros (arr & HD & HC & HL & HB). destruct h as [d len cp]. cbn [sliceHeader_Data sliceHeader_Cap sliceHeader_Len] in *. subst d cp.
  unfold grown. cbn [sliceHeader_Cap sliceHeader_Len sliceHeader_Data].
  destruct (Z.eqb (Z.of_nat (length arr)) len) eqn:E.
  - apply Z.eqb_eq in E.
    assert (Hm : smul 64 (Z.of_nat (length arr)) 2 = (Z.of_nat (length arr) * 2)%Z) by (unfold smul; apply swrap64_small; lia).
    rewrite Hm. cbv zeta.
    set (cap := if Z.eqb (Z.of_nat (length arr) * 2) 0 then 8%Z else (Z.of_nat (length arr) * 2)%Z).
    assert (Hcap : (len < cap)%Z /\ (0 < cap < 4611686018427387904)%Z).
    { unfold cap. destruct (Z.eqb_spec (Z.of_nat (length arr) * 2) 0); lia. }
    assert (Hs : s2s 64 cap = cap) by (unfold s2s; apply swrap64_small; lia). rewrite Hs.
    unfold go_new_array, go_copy_elems, set_sliceHeader_Data, set_sliceHeader_Len, set_sliceHeader_Cap.
    cbn [sliceHeader_Data sliceHeader_Len sliceHeader_Cap slice_elems].
    destruct (Z.eqb len 0) eqn:E0; cbn [negb sliceHeader_Data sliceHeader_Len sliceHeader_Cap].
    + apply Z.eqb_eq in E0. eexists. eexists. split; [reflexivity|]. split; [rewrite repeat_length; lia|].
      assert (Hz : Z.to_nat len = 0%nat) by lia. rewrite Hz. reflexivity.
    + apply Z.eqb_neq in E0. rewrite Z.min_id. eexists. eexists. split; [reflexivity|]. split.
      * rewrite app_length, firstn_length, skipn_length, repeat_length. lia.
      * rewrite firstn_app. rewrite firstn_firstn. rewrite firstn_length.
        replace (Z.to_nat len - Init.Nat.min (Z.to_nat len) (length arr))%nat with 0%nat by lia.
        cbn [firstn]. rewrite app_nil_r. f_equal. lia.
  - apply Z.eqb_neq in E. eexists. eexists. split; [reflexivity|]. split; [lia|reflexivity].
Qed.

Lemma append_one s1 s2 s3 s4 F c data h : hdr_wf h ->
  lift_hval (one_tail s1 s2 s3 s4 F (Some (gcodec_of c)) (zero c) data (grown c h))
  = lift_dec (dec (CSliceProto c) data Wire.WTLength (hval h)).
Proof.
  intros Hwf. destruct (grown_ok c h Hwf) as (a2 & cap2 & Eg & Hlt & Hfirst). rewrite Eg.
  destruct Hwf as (arr & HD & HC & HL & HB).
  rewrite one_tail_equiv by lia. cbn [dec]. unfold hval. cbn [slice_elems]. rewrite Hfirst.
  destruct (dec c data Wire.WTLength (zero c)) as [[x used]| | | |]; reflexivity.
Qed.

Theorem gen_ProtoSlice_Read : forall c data h wt fuel, hdr_wf h ->
  lift_hval (ProtoSliceWrapper_Read fuel (prw c) data h wt) = lift_dec (dec (CSliceProto c) data (Z.to_N wt) (hval h)).
Proof.
  intros c data h wt fuel Hwf.
  transitivity (lift_hval (one_tail "Read.arr_1" "Read.el_3" "Read.cd_2" "Read.arr_6" fuel (Some (gcodec_of c)) (zero c) data (grown c h))).
  - unfold ProtoSliceWrapper_Read, grown, one_tail.
    cbn [prw bsw ProtoSliceWrapper_BaseSliceWrapper BaseSliceWrapper_Underlying BaseSliceWrapper_EltType].
    destruct (Z.eqb (sliceHeader_Cap h) (sliceHeader_Len h)); [|reflexivity].
    cbv zeta. destruct (Z.eqb (smul 64 (sliceHeader_Cap h) 2) 0); destruct (negb (Z.eqb (sliceHeader_Len h) 0)); reflexivity.
  - rewrite append_one by exact Hwf. cbn [dec]. reflexivity.
Qed.

Theorem gen_LenSlice_readAsWTLength : forall c data h fuel, hdr_wf h ->
  lift_hval (WTLengthSliceWrapper_readAsWTLength fuel (lw c) data h) = lift_dec (dec (CSliceProto c) data Wire.WTLength (hval h)).
Proof.
  intros c data h fuel Hwf.
  transitivity (lift_hval (one_tail "readAsWTLength.arr_1" "readAsWTLength.el_3" "readAsWTLength.cd_2" "readAsWTLength.arr_6" fuel (Some (gcodec_of c)) (zero c) data (grown c h))).
  - unfold WTLengthSliceWrapper_readAsWTLength, grown, one_tail.
    cbn [lw bsw WTLengthSliceWrapper_BaseSliceWrapper BaseSliceWrapper_Underlying BaseSliceWrapper_EltType].
    destruct (Z.eqb (sliceHeader_Cap h) (sliceHeader_Len h)); [|reflexivity].
    cbv zeta. destruct (Z.eqb (smul 64 (sliceHeader_Cap h) 2) 0); destruct (negb (Z.eqb (sliceHeader_Len h) 0)); reflexivity.
  - apply append_one. exact Hwf.
Qed.

(** ** counted slices of length-delimited elements read back (WTLengthSliceWrapper.Read) *)
Fixpoint framed_spec (decf : decoder) (z : val) (n : nat) (rest : bytes) (consumed : N) : res (list val * N) :=
  match n with
  | O => Ok ([], consumed)
  | S n' =>
    let '(s, k) := read_varuint rest in
    if (k <=? 0)%Z then Err else
    do rest1 <- go_drop "WTLengthSliceWrapper.Read data[offset:]" (Z.to_N k) rest;
    if len rest1 <? s then Err else
    do edata <- go_take "WTLengthSliceWrapper.Read data[offset:offset+s]" s rest1;
    do (x, used) <- decf edata Wire.WTLength z;
    do rest2 <- go_drop "WTLengthSliceWrapper.Read data[offset:]" used rest1;
    do (xs, c') <- framed_spec decf z n' rest2 (consumed + Z.to_N k + used);
    Ok (x :: xs, c')
  end.

Lemma read_framed_spec decf z : forall n f rest consumed acc, (n < f)%nat ->
  read_framed_elems decf z f (N.of_nat n) rest consumed acc
  = match framed_spec decf z n rest consumed with
    | Ok (xs, c') => Ok (rev acc ++ xs, c')
    | Err => Err | Panic s => Panic s | Hang s => Hang s | Blowup s => Blowup s
    end.
Proof.
  induction n as [|n IH]; intros f rest consumed acc Hf; (destruct f as [|f]; [lia|]).
  - cbn [read_framed_elems framed_spec N.of_nat N.eqb]. rewrite app_nil_r. reflexivity.
  - cbn [framed_spec]. unfold read_framed_elems; fold read_framed_elems.
    replace (N.of_nat (S n) =? 0) with false by (symmetry; apply N.eqb_neq; lia).
    destruct (read_varuint rest) as [s k]. destruct (Z.leb k 0); [reflexivity|].
    destruct (go_drop "WTLengthSliceWrapper.Read data[offset:]" (Z.to_N k) rest) as [rest1| | | |]; cbn [bind]; try reflexivity.
    destruct (len rest1 <? s); [reflexivity|].
    destruct (go_take "WTLengthSliceWrapper.Read data[offset:offset+s]" s rest1) as [edata| | | |]; cbn [bind]; try reflexivity.
    destruct (decf edata Wire.WTLength z) as [[x used]| | | |]; cbn [bind]; try reflexivity.
    destruct (go_drop "WTLengthSliceWrapper.Read data[offset:]" used rest1) as [rest2| | | |]; cbn [bind]; try reflexivity.
    replace (N.of_nat (S n) - 1) with (N.of_nat n) by lia. rewrite IH by lia.
    destruct (framed_spec decf z n rest2 (consumed + Z.to_N k + used)) as [[xs c']| | | |]; cbn [bind]; try reflexivity.
    cbn [rev]. rewrite <- app_assoc. reflexivity.
Qed.

Lemma framed_spec_length decf z : forall n rest consumed xs c', framed_spec decf z n rest consumed = Ok (xs, c') -> length xs = n.
Proof.
  induction n as [|n IH]; intros rest consumed xs c' H; cbn [framed_spec] in H.
  - inversion H. reflexivity.
  - destruct (read_varuint rest) as [s k]. destruct (Z.leb k 0); [discriminate|].
    destruct (go_drop "WTLengthSliceWrapper.Read data[offset:]" (Z.to_N k) rest) as [rest1| | | |]; cbn [bind] in H; try discriminate.
    destruct (len rest1 <? s); [discriminate|].
    destruct (go_take "WTLengthSliceWrapper.Read data[offset:offset+s]" s rest1) as [edata| | | |]; cbn [bind] in H; try discriminate.
    destruct (decf edata Wire.WTLength z) as [[x used]| | | |]; cbn [bind] in H; try discriminate.
    destruct (go_drop "WTLengthSliceWrapper.Read data[offset:]" used rest1) as [rest2| | | |]; cbn [bind] in H; try discriminate.
    destruct (framed_spec decf z n rest2 (consumed + Z.to_N k + used)) as [[ys c2]| | | |] eqn:E; cbn [bind] in H; try discriminate.
    inversion H; subst. cbn [length]. f_equal. eapply IH. exact E.
Qed.

Definition fr_loop (F : nat) (u : option gcodec) (data : bytes) :=
  fix loop1 (fuel' : nat) (i : Z) (offset : Z) (ptr : sliceHeader) {struct fuel'} : res (lout (sliceHeader * Z) (Z * Z * sliceHeader)) :=
      match fuel' with
      | O => Hang "Read.loop1"
      | S fuel' =>
        if (Z.ltb i (sliceHeader_Len ptr)) then
        do sl_1 <- go_slice_from "Read.sl_1" data offset;
        let '(s, n) := (GenCore.ReadVarUint sl_1) in
        if (Z.leb n 0%Z) then
          Err
        else
          let offset := (sadd 64 offset n) in
        if (N.ltb (s2u 64 (ssub 64 (go_len data) offset)) s) then
          Err
        else
          let ptr_at := i in
        do sb_2 <- go_slice_both "Read.sb_2" data offset (sadd 64 offset (u2s 64 s));
        do el_4 <- go_elem "Read.el_4" (sliceHeader_Data ptr) ptr_at;
        do cd_3 <- go_itf "Read.cd_3" u;
        do rd_5 <- gc_Read cd_3 F sb_2 el_4 2%Z;
        let '(pv_6, n) := rd_5 in
        do arr_7 <- go_set_elem "Read.arr_7" (sliceHeader_Data ptr) ptr_at pv_6;
        let ptr := set_sliceHeader_Data ptr arr_7 in
        let offset := (sadd 64 offset n) in
        let i := (sadd 64 i 1%Z) in
        loop1 fuel' i offset ptr
        else Ok (LDone (i, offset, ptr))
      end.

Lemma go_slice_both_ok' site (data : bytes) a b : (0 <= a <= b)%Z -> (b <= Z.of_nat (length data))%Z ->
  go_slice_both site data a b = Ok (firstn (Z.to_nat (b - a)) (skipn (Z.to_nat a) data)).
Proof.
  intros H1 H2. unfold go_slice_both, go_len.
  replace ((a <? 0) || (b <? a) || (Z.of_nat (length data) <? b))%Z with false; [reflexivity|].
  symmetry. rewrite !orb_false_iff. repeat split; apply Z.ltb_ge; lia.
Qed.

Lemma nth_skipn' (l : list val) k m d : nth m (skipn k l) d = nth (k + m) l d.
Proof. revert l. induction k as [|k IH]; intros l; [reflexivity|]. destruct l; [destruct m; reflexivity|]. cbn [skipn plus nth]. apply IH. Qed.

Section FrLoop.
Variables (F : nat) (c : codec) (data : bytes).
Hypothesis Hlen : (Z.of_nat (length data) < 4611686018427387904)%Z.
Hypothesis Hsafe : dsafe (S (length data)) (dec c).

(** elements i .. cnt-1 of the array are zero values (a new array, or cleared beforehand) *)
Definition zeros_from (arr : list val) (i n : nat) : Prop := forall j, (i <= j < i + n)%nat -> nth j arr (VSkip 0) = zero c.

Lemma fr_loop_equiv : forall n f i offset arr cnt cap,
  (0 <= i)%Z -> cnt = (i + Z.of_nat n)%Z -> (cnt <= Z.of_nat (length arr))%Z -> (cnt < 4611686018427387904)%Z ->
  (0 <= offset <= Z.of_nat (length data))%Z -> (n < f)%nat -> zeros_from arr (Z.to_nat i) n ->
  (do lr <- fr_loop F (Some (gcodec_of c)) data f i offset (mksliceHeader (VSlice arr) cnt cap);
   match lr with LRet v => Ok v | LDone (i, offset, ptr) => Ok (ptr, offset) end)
  = lift_hdr cnt cap (firstn (Z.to_nat i) arr) (skipn (Z.to_nat cnt) arr)
      (framed_spec (dec c) (zero c) n (skipn (Z.to_nat offset) data) (Z.to_N offset)).
Proof.
  induction n as [|n IH]; intros f i offset arr cnt cap Hi Hcnt Hle Hbig Hoff Hf Hz; (destruct f as [|f]; [lia|]).
  - cbn [fr_loop sliceHeader_Len framed_spec lift_hdr].
    replace (Z.ltb i cnt) with false by (symmetry; apply Z.ltb_ge; lia).
    assert (Hci : cnt = i) by lia. clear Hcnt. subst cnt.
    cbn [bind app]. rewrite firstn_skipn. f_equal. f_equal. lia.
  - cbn [fr_loop sliceHeader_Len sliceHeader_Data framed_spec].
    replace (Z.ltb i cnt) with true by (symmetry; apply Z.ltb_lt; lia).
    rewrite go_slice_from_ok' by lia. cbn [bind]. rewrite gen_ReadVarUint.
    set (rest := skipn (Z.to_nat offset) data).
    assert (Hrl : length rest = (length data - Z.to_nat offset)%nat) by (unfold rest; apply skipn_length).
    destruct (read_varuint rest) as [s k] eqn:Erv. pose proof (read_varuint_n rest s k Erv) as Hk. unfold len in Hk.
    destruct (Z.leb k 0) eqn:Ek0; [reflexivity|]. apply Z.leb_gt in Ek0.
    destruct (go_drop_ok "WTLengthSliceWrapper.Read data[offset:]"%string (Z.to_N k) rest ltac:(unfold len; lia)) as [E1 L1].
    rewrite E1. cbn [bind]. unfold len in L1.
    set (rest1 := skipn (N.to_nat (Z.to_N k)) rest) in *.
    assert (Hr1 : rest1 = skipn (Z.to_nat (offset + k)) data).
    { unfold rest1, rest. rewrite skipn_skipn'. f_equal. lia. }
    assert (Hl1 : length rest1 = (length data - Z.to_nat (offset + k))%nat) by (rewrite Hr1; apply skipn_length).
    rewrite (sadd64_small offset k) by lia. unfold go_len.
    assert (Hss : ssub 64 (Z.of_nat (length data)) (offset + k) = (Z.of_nat (length data) - (offset + k))%Z)
      by (unfold ssub; apply swrap64_small; lia).
    rewrite Hss, s2u64_nonneg by lia.
    replace (Z.to_N (Z.of_nat (length data) - (offset + k))) with (len rest1) by (unfold len; lia).
    destruct (len rest1 <? s) eqn:Es; [reflexivity|]. apply N.ltb_ge in Es. unfold len in Es.
    rewrite (u2s64_small s) by lia. rewrite (sadd64_small (offset + k)) by lia.
    rewrite go_slice_both_ok' by lia.
    unfold go_take. replace (s <=? len rest1) with true by (symmetry; apply N.leb_le; unfold len; lia). cbn [bind].
    replace (offset + k + Z.of_N s - (offset + k))%Z with (Z.of_N s) by lia.
    replace (Z.to_nat (Z.of_N s)) with (N.to_nat s) by lia. rewrite <- Hr1.
    rewrite go_elem_ok by lia. cbn [bind go_itf gcodec_of gc_Read]. change (Z.to_N 2) with Wire.WTLength.
    rewrite (Hz (Z.to_nat i)) by lia.
    set (edata := firstn (N.to_nat s) rest1).
    assert (Hel : (length edata < S (length data))%nat) by (unfold edata; rewrite firstn_length; lia).
    pose proof (Hsafe edata Wire.WTLength (zero c) Hel) as Hg.
    destruct (dec c edata Wire.WTLength (zero c)) as [[x used]| | | |]; cbn [good lift_dec bind lift_hdr] in *; try contradiction; [|reflexivity].
    unfold len in Hg. assert (Hus : used <= s) by (unfold edata in Hg; rewrite firstn_length in Hg; lia).
    rewrite go_set_elem_ok by lia. cbn [bind].
    destruct (go_drop_ok "WTLengthSliceWrapper.Read data[offset:]"%string used rest1 ltac:(unfold len; lia)) as [E2 L2].
    rewrite E2. cbn [bind].
    rewrite (sadd64_small (offset + k)) by lia. rewrite (sadd64_small i 1) by lia.
    fold (fr_loop F (Some (gcodec_of c)) data).
    unfold set_sliceHeader_Data. cbn [sliceHeader_Len sliceHeader_Cap].
    match goal with |- context [mksliceHeader (VSlice ?a) cnt cap] => remember a as arr' eqn:Earr end.
    change gval with val in Earr.
    assert (Hal : length arr' = length arr).
    { subst arr'. rewrite app_length, firstn_length. cbn [length]. rewrite skipn_length. lia. }
    assert (Hz' : zeros_from arr' (Z.to_nat (i + 1)) n).
    { intros j Hj. subst arr'. rewrite app_nth2 by (rewrite firstn_length; lia). rewrite firstn_length.
      replace (Init.Nat.min (Z.to_nat i) (length arr)) with (Z.to_nat i) by lia.
      destruct (j - Z.to_nat i)%nat as [|m] eqn:Ej; [lia|]. cbn [nth].
      rewrite nth_skipn'. replace (S (Z.to_nat i) + m)%nat with j by lia. apply Hz. lia. }
    rewrite (IH f (i + 1)%Z (offset + k + Z.of_N used)%Z arr' cnt cap) by (auto; lia).
    rewrite Hr1. rewrite skipn_skipn'.
    replace (Z.to_nat (offset + k) + N.to_nat used)%nat with (Z.to_nat (offset + k + Z.of_N used)) by lia.
    replace (Z.to_N offset + Z.to_N k + used) with (Z.to_N (offset + k + Z.of_N used)) by lia.
    destruct (framed_spec (dec c) (zero c) n (skipn (Z.to_nat (offset + k + Z.of_N used)) data) (Z.to_N (offset + k + Z.of_N used))) as [[xs c']| | | |]; cbn [bind lift_hdr]; try reflexivity.
    f_equal. f_equal. f_equal. f_equal.
    assert (Hf1 : firstn (Z.to_nat (i + 1)) arr' = firstn (Z.to_nat i) arr ++ [x]).
    { subst arr'. replace (Z.to_nat (i + 1)) with (S (Z.to_nat i)) by lia. apply firstn_upd. lia. }
    assert (Hs1 : skipn (Z.to_nat cnt) arr' = skipn (Z.to_nat cnt) arr).
    { subst arr'. apply skipn_upd; lia. }
    rewrite Hf1, Hs1. rewrite <- app_assoc. reflexivity.
Qed.
End FrLoop.

Lemma nth_firstn_lt (l : list val) i j d : (j < i)%nat -> nth j (firstn i l) d = nth j l d.
Proof. revert l j. induction i as [|i IH]; intros l j H; [lia|]. destruct l; [destruct j; reflexivity|]. destruct j; [reflexivity|]. cbn [firstn nth]. apply IH. lia. Qed.

Definition clr_loop (z : gval) (cntz : Z) :=
  fix loop2 (fuel' : nat) (i : Z) (ptr : sliceHeader) {struct fuel'} : res (lout (sliceHeader * Z) (Z * sliceHeader)) :=
        match fuel' with
        | O => Hang "Read.loop2"
        | S fuel' =>
          if (Z.ltb i cntz) then
          let ptr_at := i in
          do arr_8 <- go_set_elem "Read.arr_8" (sliceHeader_Data ptr) ptr_at z;
          let ptr := set_sliceHeader_Data ptr arr_8 in
          let i := (sadd 64 i 1%Z) in
          loop2 fuel' i ptr
          else Ok (LDone (i, ptr))
        end.

Lemma clr_loop_equiv z cnt : (cnt < 4611686018427387904)%Z ->
  forall n f i arr len0 cap, (0 <= i)%Z -> cnt = (i + Z.of_nat n)%Z -> (cnt <= Z.of_nat (length arr))%Z -> (n < f)%nat ->
  exists arr', clr_loop z cnt f i (mksliceHeader (VSlice arr) len0 cap) = Ok (LDone (cnt, mksliceHeader (VSlice arr') len0 cap))
    /\ length arr' = length arr
    /\ (forall j, (Z.to_nat i <= j < Z.to_nat cnt)%nat -> nth j arr' (VSkip 0) = z)
    /\ (forall j, (j < Z.to_nat i)%nat -> nth j arr' (VSkip 0) = nth j arr (VSkip 0)).
Proof.
  intros Hbig. induction n as [|n IH]; intros f i arr len0 cap Hi Hcnt Hle Hf; (destruct f as [|f]; [lia|]).
  - cbn [clr_loop]. replace (Z.ltb i cnt) with false by (symmetry; apply Z.ltb_ge; lia).
    assert (Hci : cnt = i) by lia. clear Hcnt. subst cnt. exists arr. split; [reflexivity|]. split; [reflexivity|]. split; [intros j Hj; lia|intros; reflexivity].
  - cbn [clr_loop sliceHeader_Data]. replace (Z.ltb i cnt) with true by (symmetry; apply Z.ltb_lt; lia).
    rewrite go_set_elem_ok by lia. cbn [bind]. unfold set_sliceHeader_Data. cbn [sliceHeader_Len sliceHeader_Cap].
    rewrite sadd64_small by lia. fold (clr_loop z cnt).
    match goal with |- context [mksliceHeader (VSlice ?a) len0 cap] => remember a as a1 eqn:Ea end.
    change gval with val in Ea.
    assert (Hl1 : length a1 = length arr).
    { subst a1. rewrite app_length, firstn_length. cbn [length]. rewrite skipn_length. lia. }
    destruct (IH f (i + 1)%Z a1 len0 cap ltac:(lia) ltac:(lia) ltac:(lia) ltac:(lia)) as (arr' & E & L & Hzs & Hkeep).
    exists arr'. split; [exact E|]. split; [lia|]. split.
    + intros j Hj. destruct (Nat.eq_dec j (Z.to_nat i)) as [->|Hne].
      * rewrite Hkeep by lia. subst a1. rewrite app_nth2 by (rewrite firstn_length; lia). rewrite firstn_length.
        replace (Z.to_nat i - Init.Nat.min (Z.to_nat i) (length arr))%nat with 0%nat by lia. reflexivity.
      * apply Hzs. lia.
    + intros j Hj. rewrite Hkeep by lia. subst a1. rewrite app_nth1 by (rewrite firstn_length; lia).
      apply nth_firstn_lt. exact Hj.
Qed.

Lemma nth_repeat_lt (z d : val) n j : (j < n)%nat -> nth j (repeat z n) d = z.
Proof. revert j. induction n as [|n IH]; intros j H; [lia|]. destruct j; [reflexivity|]. cbn [repeat nth]. apply IH. lia. Qed.

Theorem gen_LenSlice_Read : forall c data h wt,
  (Z.of_nat (length data) < 4611686018427387904)%Z -> dsafe (S (length data)) (dec c) -> hdr_wf h ->
  lift_hval (WTLengthSliceWrapper_Read (S (length data)) (lw c) data h wt)
  = lift_dec (dec (CSliceLen c) data (Z.to_N wt) (hval h)).
Proof.
  intros c data h wt Hlen Hsafe Hwf.
  change (WTLengthSliceWrapper_Read (S (length data)) (lw c) data h wt)
    with (if Z.eqb wt 2 then (do r_9 <- WTLengthSliceWrapper_readAsWTLength (S (length data)) (lw c) data h; Ok r_9)
          else let '(count_, n) := GenCore.ReadVarUint data in
            if Z.ltb n 0 then Err else
            if N.ltb (s2u 64 (ssub 64 (go_len data) n)) count_ then Err else
            if Z.ltb (sliceHeader_Cap h) (u2s 64 count_) then
              (do lr <- fr_loop (S (length data)) (Some (gcodec_of c)) data (S (length data)) 0%Z n
                          (set_sliceHeader_Len (set_sliceHeader_Cap (set_sliceHeader_Data h (go_new_array (zero c) (u2s 64 count_))) (u2s 64 count_)) (u2s 64 count_));
               match lr with LRet v => Ok v | LDone (i, offset, ptr) => Ok (ptr, offset) end)
            else
              (do lr <- clr_loop (zero c) (u2s 64 count_) (S (length data)) 0%Z h;
               match lr with
               | LRet v => Ok v
               | LDone (i, ptr) =>
                 (do lr <- fr_loop (S (length data)) (Some (gcodec_of c)) data (S (length data)) 0%Z n (set_sliceHeader_Len ptr (u2s 64 count_));
                  match lr with LRet v => Ok v | LDone (i, offset, ptr) => Ok (ptr, offset) end)
               end)).
  cbn [dec].
  destruct (Z.eqb wt 2) eqn:Ewt.
  - apply Z.eqb_eq in Ewt. subst wt. change (Z.to_N 2 =? Wire.WTLength) with true. cbv iota.
    pose proof (gen_LenSlice_readAsWTLength c data h (S (length data)) Hwf) as R. cbn [dec] in R.
    destruct (WTLengthSliceWrapper_readAsWTLength (S (length data)) (lw c) data h) as [[h' n']| | | |]; cbn [bind lift_hval] in *; exact R.
  - apply Z.eqb_neq in Ewt. replace (Z.to_N wt =? Wire.WTLength) with false by (symmetry; apply N.eqb_neq; unfold Wire.WTLength; lia).
    rewrite gen_ReadVarUint. destruct (read_varuint data) as [cnt n] eqn:Erv.
    pose proof (read_varuint_n data cnt n Erv) as Hn. unfold len in Hn.
    destruct (Z.ltb n 0) eqn:En; [reflexivity|]. apply Z.ltb_ge in En. unfold go_len.
    assert (Hss : ssub 64 (Z.of_nat (length data)) n = (Z.of_nat (length data) - n)%Z) by (unfold ssub; apply swrap64_small; lia).
    rewrite Hss, s2u64_nonneg by lia.
    replace (Z.to_N (Z.of_nat (length data) - n)) with (len data - Z.to_N n) by (unfold len; lia).
    destruct (len data - Z.to_N n <? cnt) eqn:Ec; [reflexivity|]. apply N.ltb_ge in Ec. unfold len in Ec.
    rewrite (u2s64_small cnt) by lia.
    destruct (go_drop_ok "WTLengthSliceWrapper.Read data[offset:]"%string (Z.to_N n) data ltac:(unfold len; lia)) as [E1 L1].
    rewrite E1. cbn [bind]. unfold len in L1.
    unfold alloc_guard. replace (cnt <=? len (skipn (N.to_nat (Z.to_N n)) data)) with true by (symmetry; apply N.leb_le; unfold len; lia). cbn [bind].
    pose proof (read_framed_spec (dec c) (zero c) (N.to_nat cnt) (S (length data)) (skipn (N.to_nat (Z.to_N n)) data) (Z.to_N n) [] ltac:(lia)) as RS.
    rewrite N2Nat.id in RS. rewrite RS. clear RS. cbn [rev app].
    destruct Hwf as (arr & HD & HC & HL & HB). destruct h as [d len0 cp]. cbn [sliceHeader_Data sliceHeader_Cap sliceHeader_Len] in *. subst d cp.
    assert (Hfin : forall arr0 cap0, (Z.of_N cnt <= Z.of_nat (length arr0))%Z -> zeros_from c arr0 0 (N.to_nat cnt) ->
      lift_hval (do lr <- fr_loop (S (length data)) (Some (gcodec_of c)) data (S (length data)) 0%Z n (mksliceHeader (VSlice arr0) (Z.of_N cnt) cap0);
                 match lr with LRet v => Ok v | LDone (i, offset, ptr) => Ok (ptr, offset) end)
      = lift_dec (do (l, used) <- match framed_spec (dec c) (zero c) (N.to_nat cnt) (skipn (N.to_nat (Z.to_N n)) data) (Z.to_N n) with
                                  | Ok (xs, c') => Ok (xs, c') | Err => Err | Panic s => Panic s | Hang s => Hang s | Blowup s => Blowup s end;
                  Ok (VSlice l, used))).
    { intros arr0 cap0 Hle Hz.
      rewrite (fr_loop_equiv (S (length data)) c data Hlen Hsafe (N.to_nat cnt) (S (length data)) 0%Z n arr0 (Z.of_N cnt) cap0) by (auto; lia).
      change (Z.to_nat 0) with 0%nat. cbn [firstn app]. replace (Z.to_nat n) with (N.to_nat (Z.to_N n)) by lia.
      destruct (framed_spec (dec c) (zero c) (N.to_nat cnt) (skipn (N.to_nat (Z.to_N n)) data) (Z.to_N n)) as [[xs used]| | | |] eqn:E; cbn [lift_hdr lift_hval bind lift_dec]; try reflexivity.
      pose proof (framed_spec_length _ _ _ _ _ _ _ E) as Hxl.
      unfold hval. cbn [sliceHeader_Len sliceHeader_Data slice_elems].
      replace (Z.to_nat (Z.of_N cnt)) with (length xs) at 1 by lia. rewrite app_nil_l.
      rewrite firstn_app, firstn_all, Nat.sub_diag. cbn [firstn]. rewrite app_nil_r. reflexivity. }
    cbn [sliceHeader_Cap].
    destruct (Z.ltb (Z.of_nat (length arr)) (Z.of_N cnt)) eqn:Ecap.
    + unfold set_sliceHeader_Len, set_sliceHeader_Cap, set_sliceHeader_Data, go_new_array. cbn [sliceHeader_Data sliceHeader_Len sliceHeader_Cap].
      rewrite Hfin.
      * destruct (framed_spec (dec c) (zero c) (N.to_nat cnt) (skipn (N.to_nat (Z.to_N n)) data) (Z.to_N n)) as [[xs used]| | | |]; reflexivity.
      * rewrite repeat_length. lia.
      * intros j Hj. apply nth_repeat_lt. lia.
    + apply Z.ltb_ge in Ecap.
      destruct (clr_loop_equiv (zero c) (Z.of_N cnt) ltac:(lia) (N.to_nat cnt) (S (length data)) 0%Z arr len0 (Z.of_nat (length arr)) ltac:(lia) ltac:(lia) ltac:(lia) ltac:(lia))
        as (arr' & E & L & Hzs & _).
      rewrite E. cbn [bind]. unfold set_sliceHeader_Len. cbn [sliceHeader_Data sliceHeader_Cap].
      rewrite Hfin.
      * destruct (framed_spec (dec c) (zero c) (N.to_nat cnt) (skipn (N.to_nat (Z.to_N n)) data) (Z.to_N n)) as [[xs used]| | | |]; reflexivity.
      * lia.
      * intros j Hj. apply Hzs. change (Z.to_nat 0) with 0%nat. lia.
Qed.

(** the scalar element codecs overwrite: their Read does not look at what the target held *)
Lemma scalar_overwrites : forall c, match c with CBool | CInt _ | CUint _ | CFlat _ | CF32 | CF64 | CBQ => True | _ => False end ->
  forall d w p q, dec c d w p = dec c d w q.
Proof. intros c H d w p q. destruct c; try contradiction; reflexivity. Qed.

(** non-vacuity: a counted slice of structs read into a longer target whose elements are populated
    (the absent field of the second element must come out zero, not as the old element's), and the
    repeated form appended to a full target *)
Example gen_slice_read_ex2 :
  let inner := CStruct [] 2 [mkfld 0 1 [] (CInt 64); mkfld 1 2 [] CString] in
  lift_hval (WTLengthSliceWrapper_Read 9 (lw inner) [2; 2; 8; 2; 3; 18; 1; 97]
               (mksliceHeader (VSlice [VStruct [VInt 7; VStr [120]]; VStruct [VInt 7; VStr [120]]; VStruct [VInt 7; VStr [120]]]) 3 3) 3)
  = Ok (VSlice [VStruct [VInt 1; VStr []]; VStruct [VInt 0; VStr [97]]], 8%Z)
  /\ lift_hval (ProtoSliceWrapper_Read 5 (prw CString) [97; 98] (mksliceHeader (VSlice [VStr [120]]) 1 1) 2)
     = Ok (VSlice [VStr [120]; VStr [97; 98]], 2%Z).
Proof. vm_compute. split; reflexivity. Qed.
