(** PointerWrapper of plenccodec/wrapper.go as translated from the Go source
    ([PlencGen.GenPtr], generated on every run by tools/gotrans) computes the
    model's [omit] / [size] / [enc] / [dec] for [CPtr c], for every underlying
    codec [c] given as its method table.  The pointer slot the wrapper is handed
    the address of holds nil or the address of a value ([go_load_opt] /
    [go_store_opt], GoMem.v). *)
From Plenc Require Import Base Varint Wire GoSem JsonAny Codec SizeProofs DecBase DecProofs GoMem.
From PlencGen Require Import GenCore GenPtr.
Open Scope N_scope.

Definition pw (c : codec) : PointerWrapper := mkPointerWrapper (Some (gcodec_of c)).

Theorem gen_Ptr_Omit : forall c o, PointerWrapper_Omit (VPtr o) = omit (CPtr c) (VPtr o).
Proof. intros c [p|]; reflexivity. Qed.

Theorem gen_Ptr_Size : forall c o tag fuel,
  PointerWrapper_Size fuel (pw c) (VPtr o) tag = Ok (Z.of_N (size (CPtr c) (VPtr o) tag)).
Proof. intros c [p|] tag fuel; reflexivity. Qed.

Theorem gen_Ptr_Append : forall c o data tag fuel,
  PointerWrapper_Append fuel (pw c) data (VPtr o) tag = Ok (data ++ enc (CPtr c) (VPtr o) tag).
Proof. intros c [p|] data tag fuel; cbn; [reflexivity|rewrite app_nil_r; reflexivity]. Qed.

(** Read: a nil slot gets a new zero value first; the underlying codec then reads INTO what the slot points to *)
Theorem gen_Ptr_Read : forall c o data wt fuel,
  PointerWrapper_Read fuel (pw c) data (VPtr o) wt = lift_dec (dec (CPtr c) data (Z.to_N wt) (VPtr o)).
Proof.
  intros c [p|] data wt fuel; unfold PointerWrapper_Read; cbn [go_load_opt go_is_nil pw PointerWrapper_Underlying go_itf bind gcodec_of gc_New gc_Read go_store_opt dec].
  - destruct (dec c data (Z.to_N wt) p) as [[v used]| | | |]; reflexivity.
  - destruct (dec c data (Z.to_N wt) (zero c)) as [[v used]| | | |]; reflexivity.
Qed.

(** a wrapper around a nil codec faults instead of misbehaving *)
Theorem gen_Ptr_nil_codec : forall data wt fuel p,
  PointerWrapper_Read fuel (mkPointerWrapper None) data (VPtr (Some p)) wt = Panic "Read.cd_1".
Proof. reflexivity. Qed.

Example gen_ptr_ex :
  PointerWrapper_Read 5 (pw (CInt 64)) [10] (VPtr None) 0 = Ok (VPtr (Some (VInt 5)), 1%Z)
  /\ PointerWrapper_Append 20 (pw CString) [1] (VPtr (Some (VStr []))) [18] = Ok [1; 18; 0]
  /\ PointerWrapper_Omit (VPtr (Some (VInt 0))) = false.
Proof. vm_compute. repeat split; reflexivity. Qed.
