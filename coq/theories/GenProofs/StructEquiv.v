(** The struct codec of plenccodec/struct.go as translated from the Go source
    ([PlencGen.GenStruct], generated on every run by tools/gotrans) computes the
    model's [struct_loop] / [size] / [enc] for [CStruct].

    The translated code works on a [StructCodec] record (fields, fieldsByIndex)
    whose field codecs are values of the [Codec] interface - method tables.  The
    theorems below hold for every table of decoders [tbl] and every
    [fieldsByIndex] that agrees with it ([byidx_ok]: what BuildStructCodec
    constructs; that function uses reflect and is modelled, not translated),
    and for field decoders that are total ([dsafe], which [dec_total] proves
    for the model's codecs). *)
From Plenc Require Import Base Varint Wire VarintProofs WireProofs GoSem JsonAny Codec SizeProofs DecBase DecProofs GoMem.
From PlencGen Require Import GenCore CoreEquiv GenStruct.
Open Scope N_scope.

Definition lift_struct (r : res (list val * N)) : res (gval * Z) :=
  match r with
  | Ok (vs, n) => Ok (VStruct vs, Z.of_N n)
  | Err => Err | Panic s => Panic s | Hang s => Hang s | Blowup s => Blowup s
  end.

(** [fieldsByIndex] agrees with the decoder table: an index the table knows has
    its method table and slot at that position, any other index is beyond the
    end or holds a nil codec *)
Definition byidx_ok (byidx : list shortDesc) (tbl : list (Z * nat * decoder)) : Prop :=
  forall index, (0 <= index)%Z ->
  match find_field tbl index with
  | Some (sl, decf) =>
    exists g, nth_error byidx (Z.to_nat index) = Some (mkshortDesc (Some g) (N.of_nat sl))
              /\ forall fuel d v wt, gc_Read g fuel d v wt = lift_dec (decf d (Z.to_N wt) v)
  | None => (Z.of_nat (length byidx) <= index)%Z
            \/ exists sd, nth_error byidx (Z.to_nat index) = Some sd /\ shortDesc_codec sd = None
  end.

(** the loop of StructCodec.Read as generated *)
Definition read_loop (c : StructCodec) (data : bytes) (fuel : nat) (l : Z) :=
  fix loop1 (fuel' : nat) (offset : Z) (ptr : gval) {struct fuel'} : res (lout (gval * Z) (Z * gval)) :=
      match fuel' with
      | O => Hang "Read.loop1"
      | S fuel' =>
        if (Z.ltb offset l) then
        do sl_1 <- go_slice_from "Read.sl_1" data offset;
        let '(wt, index_, n) := (GenCore.ReadTag sl_1) in
        if (Z.leb n 0%Z) then
          Err
        else
          let offset := (sadd 64 offset n) in
        do sc_3 <- (if (Z.leb (go_len (StructCodec_fieldsByIndex c)) index_) then Ok true else (do ix_2 <- go_nth "Read.ix_2" (StructCodec_fieldsByIndex c) index_; Ok (go_is_nil (shortDesc_codec ix_2))));
        if sc_3 then
          do sl_10 <- go_slice_from "Read.sl_10" data offset;
          do r_11 <- GenCore.Skip fuel sl_10 wt;
          let 'n := r_11 in
          let offset := (sadd 64 offset n) in
          loop1 fuel' offset ptr
        else
          let fl := l in
        if (Z.eqb wt 2%Z) then
          do sl_9 <- go_slice_from "Read.sl_9" data offset;
          let '(v, n) := (GenCore.ReadVarUint sl_9) in
          if (Z.leb n 0%Z) then
            Err
          else
            let offset := (sadd 64 offset n) in
          if (N.ltb (s2u 64 (ssub 64 l offset)) v) then
            Err
          else
            let fl := (sadd 64 (u2s 64 v) offset) in
          do ix_4 <- go_nth "Read.ix_4" (StructCodec_fieldsByIndex c) index_;
        let d := ix_4 in
        do sb_5 <- go_slice_both "Read.sb_5" data offset fl;
        do cd_6 <- go_itf "Read.cd_6" (shortDesc_codec d);
        do rd_7 <- gc_Read cd_6 fuel sb_5 (go_field_get ptr (shortDesc_offset d)) wt;
        let '(pv_8, n) := rd_7 in
        let ptr := go_field_set ptr (shortDesc_offset d) pv_8 in
        let offset := (sadd 64 offset n) in
        loop1 fuel' offset ptr
        else
          do ix_4 <- go_nth "Read.ix_4" (StructCodec_fieldsByIndex c) index_;
        let d := ix_4 in
        do sb_5 <- go_slice_both "Read.sb_5" data offset fl;
        do cd_6 <- go_itf "Read.cd_6" (shortDesc_codec d);
        do rd_7 <- gc_Read cd_6 fuel sb_5 (go_field_get ptr (shortDesc_offset d)) wt;
        let '(pv_8, n) := rd_7 in
        let ptr := go_field_set ptr (shortDesc_offset d) pv_8 in
        let offset := (sadd 64 offset n) in
        loop1 fuel' offset ptr
        else Ok (LDone (offset, ptr))
      end.

Lemma StructCodec_Read_unfold fuel c data ptr wt :
  StructCodec_Read fuel c data ptr wt =
  (do lr <- read_loop c data fuel (go_len data) fuel 0%Z ptr;
   match lr with LRet v => Ok v | LDone (offset, ptr) => Ok (ptr, offset) end).
Proof. reflexivity. Qed.

(** ** helpers *)
Lemma bytes_ok_skipn n (l : bytes) : bytes_ok l -> bytes_ok (skipn n l).
Proof. unfold bytes_ok. revert l. induction n as [|n IH]; intros l H; [exact H|]. destruct l; [exact H|]. inversion H; subst. cbn [skipn]. auto. Qed.
Lemma bytes_ok_firstn n (l : bytes) : bytes_ok l -> bytes_ok (firstn n l).
Proof. unfold bytes_ok. revert l. induction n as [|n IH]; intros l H; [constructor|]. destruct l; [constructor|]. inversion H; subst. cbn [firstn]. constructor; auto. Qed.

Lemma read_tag_facts rest wt index n : read_tag rest = (wt, index, n) -> wt < 8 /\ (0 <= index)%Z.
Proof.
  unfold read_tag. destruct (read_varuint rest) as [v k]. intros H. inversion H; subst. split; [apply N.mod_lt; lia|lia].
Qed.

Lemma go_slice_from_ok site (data : bytes) off : (0 <= off <= Z.of_nat (length data))%Z ->
  go_slice_from site data off = Ok (skipn (Z.to_nat off) data).
Proof.
  intros H. unfold go_slice_from, go_len.
  replace ((off <? 0) || (Z.of_nat (length data) <? off))%Z with false; [reflexivity|].
  symmetry. apply orb_false_iff. split; apply Z.ltb_ge; lia.
Qed.

Lemma go_slice_both_ok site (data : bytes) a b : (0 <= a <= b)%Z -> (b <= Z.of_nat (length data))%Z ->
  go_slice_both site data a b = Ok (firstn (Z.to_nat (b - a)) (skipn (Z.to_nat a) data)).
Proof.
  intros H1 H2. unfold go_slice_both, go_len.
  replace ((a <? 0) || (b <? a) || (Z.of_nat (length data) <? b))%Z with false; [reflexivity|].
  symmetry. rewrite !orb_false_iff. repeat split; apply Z.ltb_ge; lia.
Qed.

Lemma sadd64_small a b : (- 9223372036854775808 <= a + b < 9223372036854775808)%Z -> sadd 64 a b = (a + b)%Z.
Proof. intros H. unfold sadd. apply swrap64_small. exact H. Qed.

Lemma go_nth_ok {A} site (l : list A) i x : (0 <= i)%Z -> nth_error l (Z.to_nat i) = Some x -> go_nth site l i = Ok x.
Proof.
  intros Hi H. unfold go_nth, go_len.
  assert (Hl : (Z.to_nat i < length l)%nat) by (apply nth_error_Some; congruence).
  replace ((i <? 0) || (Z.of_nat (length l) <=? i))%Z with false.
  - rewrite H. reflexivity.
  - symmetry. apply orb_false_iff. split; [apply Z.ltb_ge; lia|apply Z.leb_gt; lia].
Qed.

Section ReadLoop.
Variable data : bytes.
Variable flds : list description.
Variable byidx : list shortDesc.
Variable tbl : list (Z * nat * decoder).
Variable F : nat.
Hypothesis Hb : bytes_ok data.
Hypothesis Hlen : (Z.of_nat (length data) < 4611686018427387904)%Z.
Hypothesis Htbl : byidx_ok byidx tbl.
Hypothesis Hsafe : Forall (fun e => dsafe (length data) (snd e)) tbl.
Hypothesis HF : (length data < F)%nat.

Let c := mkStructCodec tt flds byidx.
Let l := Z.of_nat (length data).

Lemma read_loop_equiv : forall f offset cur, (0 <= offset <= l)%Z ->
  (length (skipn (Z.to_nat offset) data) < f)%nat ->
  (do lr <- read_loop c data F l f offset (VStruct cur);
   match lr with LRet v => Ok v | LDone (offset, ptr) => Ok (ptr, offset) end)
  = lift_struct (struct_loop tbl f (skipn (Z.to_nat offset) data) (Z.to_N offset) cur).
Proof.
  induction f as [|f IH]; intros offset cur Hoff Hf; [lia|].
  cbn [read_loop struct_loop].
  set (rest := skipn (Z.to_nat offset) data) in *.
  assert (Hrl : length rest = (length data - Z.to_nat offset)%nat) by (unfold rest; apply skipn_length).
  destruct (Z.ltb offset l) eqn:Eol.
  2:{ apply Z.ltb_ge in Eol. destruct rest as [|b r]; [|cbn [length] in Hrl; lia].
      cbn [bind lift_struct]. f_equal. f_equal. lia. }
  apply Z.ltb_lt in Eol. destruct rest as [|b0 r0] eqn:Er; [cbn [length] in Hrl; lia|]. rewrite <- Er in *.
  rewrite go_slice_from_ok by lia. cbn [bind]. fold rest.
  assert (Hbr : bytes_ok rest) by (apply bytes_ok_skipn; exact Hb).
  rewrite (gen_ReadTag rest Hbr).
  replace (match rest with [] => Ok (cur, Z.to_N offset) | _ :: _ =>
     let '(wt, index, n) := read_tag rest in
     if (n <=? 0)%Z then Err else
     do rest1 <- go_drop "StructCodec.Read data[offset:]" (Z.to_N n) rest;
     let c1 := Z.to_N offset + Z.to_N n in
     match find_field tbl index with
     | None => do k <- skip rest1 wt; do rest2 <- go_drop "StructCodec.Read data[offset:]" k rest1; struct_loop tbl f rest2 (c1 + k) cur
     | Some (sl, decf) =>
       do (fdata, rest2, k) <- read_field_data "StructCodec.Read data[offset:fl]" wt rest1;
       do (fv, used) <- decf fdata wt (slot cur sl);
       do rest3 <- go_drop "StructCodec.Read data[offset:]" used rest2;
       struct_loop tbl f rest3 (c1 + k + used) (set_nth sl fv cur)
     end end)
  with (let '(wt, index, n) := read_tag rest in
     if (n <=? 0)%Z then Err else
     do rest1 <- go_drop "StructCodec.Read data[offset:]" (Z.to_N n) rest;
     let c1 := Z.to_N offset + Z.to_N n in
     match find_field tbl index with
     | None => do k <- skip rest1 wt; do rest2 <- go_drop "StructCodec.Read data[offset:]" k rest1; struct_loop tbl f rest2 (c1 + k) cur
     | Some (sl, decf) =>
       do (fdata, rest2, k) <- read_field_data "StructCodec.Read data[offset:fl]" wt rest1;
       do (fv, used) <- decf fdata wt (slot cur sl);
       do rest3 <- go_drop "StructCodec.Read data[offset:]" used rest2;
       struct_loop tbl f rest3 (c1 + k + used) (set_nth sl fv cur)
     end) by (rewrite Er; reflexivity).
  destruct (read_tag rest) as [[wt index] n] eqn:Et.
  pose proof (read_tag_n _ _ _ _ Et) as Hn. destruct (read_tag_facts _ _ _ _ Et) as [Hwt Hidx].
  destruct (Z.leb n 0) eqn:En0; [reflexivity|]. apply Z.leb_gt in En0.
  unfold len in Hn.
  destruct (go_drop_ok "StructCodec.Read data[offset:]" (Z.to_N n) rest ltac:(unfold len; lia)) as [E1 L1].
  rewrite E1. cbn [bind]. unfold len in L1.
  set (rest1 := skipn (N.to_nat (Z.to_N n)) rest) in *.
  assert (Hr1 : rest1 = skipn (Z.to_nat (offset + n)) data).
  { unfold rest1, rest. rewrite skipn_skipn'. f_equal. lia. }
  assert (Hl1 : length rest1 = (length data - Z.to_nat (offset + n))%nat) by (rewrite Hr1; apply skipn_length).
  assert (Ho1 : sadd 64 offset n = (offset + n)%Z) by (apply sadd64_small; lia).
  rewrite Ho1.
  assert (Hb1 : bytes_ok rest1) by (rewrite Hr1; apply bytes_ok_skipn; exact Hb).
  cbn [StructCodec_fieldsByIndex c].
  pose proof (Htbl index Hidx) as Hix.
  destruct (find_field tbl index) as [[sl decf]|] eqn:Ef.
  - (* a field of the struct *)
    destruct Hix as (g & Hnth & Hread).
    assert (Hil : (Z.to_nat index < length byidx)%nat) by (apply nth_error_Some; congruence).
    unfold go_len at 1. replace (Z.leb (Z.of_nat (length byidx)) index) with false by (symmetry; apply Z.leb_gt; lia).
    rewrite (go_nth_ok "Read.ix_2" byidx index _ Hidx Hnth). cbn [bind shortDesc_codec go_is_nil].
    destruct (find_field_In _ _ _ _ Ef) as [i0 Hin].
    assert (Hdec : dsafe (length data) decf) by (rewrite Forall_forall in Hsafe; apply (Hsafe _ Hin)).
    assert (Tail : forall off1 lv, (0 <= off1)%Z -> (off1 + Z.of_N lv <= l)%Z -> (offset < off1)%Z ->
      (do lr <- (do ix_4 <- go_nth "Read.ix_4" byidx index;
                 do sb_5 <- go_slice_both "Read.sb_5" data off1 (off1 + Z.of_N lv);
                 do cd_6 <- go_itf "Read.cd_6" (shortDesc_codec ix_4);
                 do (pv_8, n0) <- gc_Read cd_6 F sb_5 (go_field_get (VStruct cur) (shortDesc_offset ix_4)) (Z.of_N wt);
                 read_loop c data F l f (sadd 64 off1 n0) (go_field_set (VStruct cur) (shortDesc_offset ix_4) pv_8));
       match lr with LRet v => Ok v | LDone (offset0, ptr) => Ok (ptr, offset0) end)
      = lift_struct (do (fv, used) <- decf (firstn (N.to_nat lv) (skipn (Z.to_nat off1) data)) wt (slot cur sl);
                     do rest3 <- go_drop "StructCodec.Read data[offset:]" used (skipn (Z.to_nat off1) data);
                     struct_loop tbl f rest3 (Z.to_N off1 + used) (set_nth sl fv cur))).
    { intros off1 lv H0 H1 H2.
      rewrite (go_nth_ok "Read.ix_4" byidx index _ Hidx Hnth). cbn [bind].
      rewrite go_slice_both_ok by (fold l; lia). cbn [bind shortDesc_codec shortDesc_offset go_itf].
      rewrite Hread. replace (off1 + Z.of_N lv - off1)%Z with (Z.of_N lv) by lia.
      replace (Z.to_nat (Z.of_N lv)) with (N.to_nat lv) by lia. rewrite N2Z.id.
      unfold go_field_get. cbn [struct_fields]. rewrite Nat2N.id.
      set (fdata := firstn (N.to_nat lv) (skipn (Z.to_nat off1) data)).
      assert (Hfl : length fdata = N.to_nat lv).
      { unfold fdata. rewrite firstn_length, skipn_length. unfold l in H1. lia. }
      specialize (Hdec fdata wt (slot cur sl) ltac:(unfold l in H1; lia)).
      destruct (decf fdata wt (slot cur sl)) as [[fv used]| | | |]; cbn [good lift_dec bind lift_struct] in *; try contradiction; [|reflexivity].
      unfold len in Hdec.
      destruct (go_drop_ok "StructCodec.Read data[offset:]" used (skipn (Z.to_nat off1) data)) as [E4 L4].
      { unfold len. rewrite skipn_length. unfold l in H1. lia. }
      rewrite E4. cbn [bind].
      assert (Ho4 : sadd 64 off1 (Z.of_N used) = (off1 + Z.of_N used)%Z) by (apply sadd64_small; unfold l in *; lia).
      rewrite Ho4. unfold go_field_set. cbn [struct_fields]. rewrite Nat2N.id.
      rewrite skipn_skipn'. replace (Z.to_nat off1 + N.to_nat used)%nat with (Z.to_nat (off1 + Z.of_N used)) by lia.
      replace (Z.to_N off1 + used) with (Z.to_N (off1 + Z.of_N used)) by lia.
      apply IH; [unfold l in *; lia|]. rewrite skipn_length. unfold l in *. lia. }
    unfold read_field_data.
    destruct (Z.eqb (Z.of_N wt) 2) eqn:Ewt.
    + apply Z.eqb_eq in Ewt. assert (wt = 2) by lia. subst wt. change (N.eqb 2 Wire.WTLength) with true. cbv iota.
      rewrite go_slice_from_ok by (fold l; lia). cbn [bind]. rewrite <- Hr1. rewrite gen_ReadVarUint.
      destruct (read_varuint rest1) as [lv k] eqn:Erv.
      pose proof (read_varuint_n rest1 lv k Erv) as Hk. unfold len in Hk.
      destruct (Z.leb k 0) eqn:Ek0; [reflexivity|]. apply Z.leb_gt in Ek0.
      destruct (go_drop_ok "StructCodec.Read data[offset:fl]" (Z.to_N k) rest1 ltac:(unfold len; lia)) as [E2 L2].
      rewrite E2. cbn [bind]. unfold len in L2.
      assert (Ho2 : sadd 64 (offset + n) k = (offset + n + k)%Z) by (apply sadd64_small; unfold l in *; lia).
      rewrite Ho2.
      assert (Hr2 : skipn (N.to_nat (Z.to_N k)) rest1 = skipn (Z.to_nat (offset + n + k)) data).
      { rewrite Hr1, skipn_skipn'. f_equal. lia. }
      rewrite Hr2 in *.
      assert (Hs : ssub 64 l (offset + n + k) = (l - (offset + n + k))%Z) by (unfold ssub; apply swrap64_small; unfold l in *; lia).
      rewrite Hs, s2u64_nonneg by (unfold l in *; lia).
      replace (Z.to_N (l - (offset + n + k))) with (len (skipn (Z.to_nat (offset + n + k)) data)) by (unfold len, l in *; lia).
      destruct (len (skipn (Z.to_nat (offset + n + k)) data) <? lv) eqn:El; [reflexivity|]. apply N.ltb_ge in El.
      unfold go_take. replace (lv <=? len (skipn (Z.to_nat (offset + n + k)) data)) with true by (symmetry; apply N.leb_le; exact El).
      cbn [bind]. unfold len in El.
      rewrite (u2s64_small lv) by (unfold l in *; lia).
      assert (Ho3 : sadd 64 (Z.of_N lv) (offset + n + k) = (offset + n + k + Z.of_N lv)%Z) by (rewrite sadd64_small; unfold l in *; lia).
      rewrite Ho3.
      cbn [bind].
      replace (Z.to_N offset + Z.to_N n + Z.to_N k) with (Z.to_N (offset + n + k)) by lia.
      apply Tail; unfold l in *; lia.
    + apply Z.eqb_neq in Ewt. replace (wt =? Wire.WTLength) with false by (symmetry; apply N.eqb_neq; unfold Wire.WTLength; lia).
      cbn [bind]. rewrite N.add_0_r.
      pose proof (Tail (offset + n)%Z (N.of_nat (length rest1)) ltac:(lia) ltac:(unfold l in *; lia) ltac:(lia)) as T.
      replace (offset + n + Z.of_N (N.of_nat (length rest1)))%Z with l in T by (unfold l in *; lia).
      rewrite T. rewrite <- Hr1. rewrite Nat2N.id, firstn_all.
      replace (Z.to_N offset + Z.to_N n) with (Z.to_N (offset + n)) by lia. reflexivity.
  - (* an unknown index: skipped *)
    assert (Hsc : (if Z.leb (go_len byidx) index then Ok true
                   else do ix_2 <- go_nth "Read.ix_2" byidx index; Ok (go_is_nil (shortDesc_codec ix_2))) = Ok true).
    { unfold go_len at 1. destruct Hix as [Hge|(sd & Hnth & Hnil)].
      - replace (Z.leb (Z.of_nat (length byidx)) index) with true by (symmetry; apply Z.leb_le; lia). reflexivity.
      - assert (Hil : (Z.to_nat index < length byidx)%nat) by (apply nth_error_Some; congruence).
        replace (Z.leb (Z.of_nat (length byidx)) index) with false by (symmetry; apply Z.leb_gt; lia).
        rewrite (go_nth_ok "Read.ix_2" byidx index _ Hidx Hnth). cbn [bind]. rewrite Hnil. reflexivity. }
    rewrite Hsc. cbn [bind].
    rewrite go_slice_from_ok by (fold l; lia). cbn [bind]. rewrite <- Hr1.
    rewrite gen_Skip_fuel; [|exact Hb1|lia|lia|lia]. rewrite N2Z.id.
    pose proof (skip_total rest1 wt) as T. pose proof (skip_bounded rest1 wt) as B.
    destruct (skip rest1 wt) as [k| | | |]; cbn [bind is_ok_or_err lift lift_struct] in *; try contradiction; [|reflexivity].
    specialize (B k eq_refl). unfold len in B.
    destruct (go_drop_ok "StructCodec.Read data[offset:]" k rest1 ltac:(unfold len; lia)) as [E2 L2].
    rewrite E2. cbn [bind].
    assert (Ho2 : sadd 64 (offset + n) (Z.of_N k) = (offset + n + Z.of_N k)%Z) by (apply sadd64_small; unfold l in *; lia).
    rewrite Ho2. rewrite Hr1, skipn_skipn'.
    replace (Z.to_nat (offset + n) + N.to_nat k)%nat with (Z.to_nat (offset + n + Z.of_N k)) by lia.
    replace (Z.to_N offset + Z.to_N n + k) with (Z.to_N (offset + n + Z.of_N k)) by lia.
    apply IH; [unfold l in *; lia|]. rewrite skipn_length. unfold l in *. lia.
Qed.

End ReadLoop.

(** StructCodec.Read as translated is the model's struct loop *)
Theorem gen_StructCodec_Read : forall flds byidx tbl data cur wt,
  bytes_ok data -> (Z.of_nat (length data) < 4611686018427387904)%Z ->
  byidx_ok byidx tbl -> Forall (fun e => dsafe (length data) (snd e)) tbl ->
  StructCodec_Read (S (length data)) (mkStructCodec tt flds byidx) data (VStruct cur) wt
  = lift_struct (struct_loop tbl (S (length data)) data 0 cur).
Proof.
  intros flds byidx tbl data cur wt Hb Hlen Htbl Hsafe. rewrite StructCodec_Read_unfold.
  apply (read_loop_equiv data flds byidx tbl (S (length data)) Hb Hlen Htbl Hsafe ltac:(lia) (S (length data)) 0%Z cur).
  - lia.
  - cbn [Z.to_nat skipn]. lia.
Qed.

(** ** the struct codec that belongs to a model codec *)

Definition tbl_of (fs : list (fld codec)) : list (Z * nat * decoder) :=
  map (fun f => (f_index f, f_slot f, dec (f_codec f))) fs.

Definition is_map_codec (c : codec) : bool :=
  match c with CMap _ _ | CMapProto _ _ | CJMap => true | _ => false end.

Definition gdesc (f : fld codec) : description :=
  mkdescription (N.of_nat (f_slot f)) (Some (gcodec_of (f_codec f))) (f_index f)
                (field_tag (f_codec f) (f_index f)) (is_map_codec (f_codec f)) (f_name f).

(** fieldsByIndex as BuildStructCodec fills it: one entry per index below [n] *)
Definition by_index (fs : list (fld codec)) (n : nat) : list shortDesc :=
  map (fun i => match find (fun f => (f_index f =? Z.of_nat i)%Z) fs with
                | Some f => mkshortDesc (Some (gcodec_of (f_codec f))) (N.of_nat (f_slot f))
                | None => mkshortDesc None 0
                end) (seq 0 n).

Definition gstruct (fs : list (fld codec)) (n : nat) : StructCodec :=
  mkStructCodec tt (map gdesc fs) (by_index fs n).

Lemma find_field_tbl_of fs index :
  find_field (tbl_of fs) index =
  match find (fun f => (f_index f =? index)%Z) fs with
  | Some f => Some (f_slot f, dec (f_codec f))
  | None => None
  end.
Proof.
  unfold find_field, tbl_of. induction fs as [|f r IH]; [reflexivity|].
  cbn [map find fst snd]. destruct (Z.eqb (f_index f) index); [reflexivity|exact IH].
Qed.

Lemma by_index_ok fs n : Forall (fun f => (f_index f < Z.of_nat n)%Z) fs -> byidx_ok (by_index fs n) (tbl_of fs).
Proof.
  intros Hn index Hidx. rewrite find_field_tbl_of. unfold by_index.
  destruct (Nat.ltb (Z.to_nat index) n) eqn:Elt.
  - apply Nat.ltb_lt in Elt.
    assert (Hnth : forall g : nat -> shortDesc, nth_error (map g (seq 0 n)) (Z.to_nat index) = Some (g (Z.to_nat index))).
    { intros g. rewrite nth_error_map. rewrite (nth_error_nth' (seq 0 n) 0%nat) by (rewrite seq_length; exact Elt).
      rewrite seq_nth by exact Elt. reflexivity. }
    rewrite Hnth. rewrite Z2Nat.id by exact Hidx.
    destruct (find (fun f => (f_index f =? index)%Z) fs) as [f|].
    + exists (gcodec_of (f_codec f)). split; [reflexivity|]. intros. reflexivity.
    + right. eexists. split; [reflexivity|reflexivity].
  - apply Nat.ltb_ge in Elt.
    destruct (find (fun f => (f_index f =? index)%Z) fs) as [f|] eqn:Ef.
    + apply find_some in Ef. destruct Ef as [Hin He]. apply Z.eqb_eq in He.
      rewrite Forall_forall in Hn. specialize (Hn f Hin). lia.
    + left. rewrite map_length, seq_length. lia.
Qed.

(** Read of the translated struct codec = [dec] of the model's CStruct *)
Theorem gen_StructCodec_Read_model : forall nm n fs k data vs wt,
  bytes_ok data -> (Z.of_nat (length data) < 4611686018427387904)%Z ->
  Forall (fun f => (f_index f < Z.of_nat k)%Z) fs ->
  okd (S (length data)) (CStruct nm n fs) ->
  StructCodec_Read (S (length data)) (gstruct fs k) data (VStruct vs) wt
  = lift_dec (dec (CStruct nm n fs) data (Z.to_N wt) (VStruct vs)).
Proof.
  intros nm n fs k data vs wt Hb Hlen Hk Hokd. unfold gstruct.
  rewrite (gen_StructCodec_Read (map gdesc fs) (by_index fs k) (tbl_of fs) data vs wt Hb Hlen (by_index_ok fs k Hk)).
  - cbn [dec]. fold (tbl_of fs). destruct (struct_loop (tbl_of fs) (S (length data)) data 0 vs) as [[vs' used]| | | |]; reflexivity.
  - unfold tbl_of. rewrite Forall_map. cbn [snd].
    pose proof (okd_struct_fields nm n fs (length data) Hokd) as Hf.
    rewrite Forall_forall in *. intros f Hin. apply dec_total. apply Hf. exact Hin.
Qed.

(** ** size and append *)

Definition size_loop (ptr : gval) :=
  fix loop1 (_i : Z) (rest : (list description)) (size : Z) {struct rest} : res (lout Z Z) :=
      match rest with
      | [] => Ok (LDone size)
      | field :: rest' =>
        let fptr := (go_field_get ptr (description_offset field)) in
        if (description_deref field) then
          let fptr := (go_load_ptr fptr) in
          do cd_1 <- go_itf "size.cd_1" (description_codec field);
        if (negb (gc_Omit cd_1 fptr)) then
          do cd_2 <- go_itf "size.cd_2" (description_codec field);
          let size := (sadd 64 size (gc_Size cd_2 fptr (description_tag field))) in
          loop1 (sadd 64 _i 1%Z) rest' size
        else
          loop1 (sadd 64 _i 1%Z) rest' size
        else
          do cd_1 <- go_itf "size.cd_1" (description_codec field);
        if (negb (gc_Omit cd_1 fptr)) then
          do cd_2 <- go_itf "size.cd_2" (description_codec field);
          let size := (sadd 64 size (gc_Size cd_2 fptr (description_tag field))) in
          loop1 (sadd 64 _i 1%Z) rest' size
        else
          loop1 (sadd 64 _i 1%Z) rest' size
      end.

Lemma StructCodec_size_unfold fuel c ptr :
  StructCodec_size fuel c ptr =
  (do lr <- size_loop ptr 0%Z (StructCodec_fields c) 0%Z;
   match lr with LRet v => Ok v | LDone size => Ok size end).
Proof. reflexivity. Qed.

Definition fsize (vs : list val) (f : fld codec) : N :=
  let fv := slot vs (f_slot f) in
  if omit (f_codec f) fv then 0 else size (f_codec f) fv (field_tag (f_codec f) (f_index f)).
Definition fenc (vs : list val) (f : fld codec) : bytes :=
  let fv := slot vs (f_slot f) in
  if omit (f_codec f) fv then [] else enc (f_codec f) fv (field_tag (f_codec f) (f_index f)).

Lemma size_loop_equiv vs : forall fs i acc, (0 <= acc)%Z ->
  (acc + Z.of_N (sum_map (fsize vs) fs) < 9223372036854775808)%Z ->
  size_loop (VStruct vs) i (map gdesc fs) acc = Ok (LDone (acc + Z.of_N (sum_map (fsize vs) fs))%Z).
Proof.
  induction fs as [|f r IH]; intros i acc Hacc Hsum.
  - cbn [map size_loop sum_map fold_right]. f_equal. f_equal. lia.
  - cbn [map size_loop]. unfold sum_map in *. cbn [fold_right] in *.
    cbn [gdesc description_offset description_deref description_codec description_tag go_itf bind gcodec_of gc_Omit gc_Size].
    unfold go_load_ptr, go_field_get. cbn [struct_fields]. rewrite Nat2N.id.
    assert (Hstep : forall j,
      (if negb (omit (f_codec f) (slot vs (f_slot f)))
       then size_loop (VStruct vs) j (map gdesc r)
              (sadd 64 acc (Z.of_N (size (f_codec f) (slot vs (f_slot f)) (field_tag (f_codec f) (f_index f)))))
       else size_loop (VStruct vs) j (map gdesc r) acc)
      = Ok (LDone (acc + Z.of_N (fsize vs f + fold_right (fun x a => fsize vs x + a) 0 r)%N)%Z)).
    { intros j. unfold fsize at 1. cbv zeta. unfold fsize in Hsum at 1. cbv zeta in Hsum.
      destruct (omit (f_codec f) (slot vs (f_slot f))); cbn [negb].
      - rewrite IH by lia. f_equal; f_equal; lia.
      - rewrite sadd64_small by lia. rewrite IH by lia. f_equal; f_equal; lia. }
    destruct (is_map_codec (f_codec f)); apply Hstep.
Qed.

Theorem gen_StructCodec_size : forall fs k vs fuel,
  (Z.of_N (sum_map (fsize vs) fs) < 9223372036854775808)%Z ->
  StructCodec_size fuel (gstruct fs k) (VStruct vs) = Ok (Z.of_N (sum_map (fsize vs) fs)).
Proof.
  intros fs k vs fuel H. rewrite StructCodec_size_unfold. cbn [gstruct StructCodec_fields].
  rewrite size_loop_equiv by lia. reflexivity.
Qed.

Definition append_loop (fuel : nat) (ptr : gval) :=
  fix loop1 (_i : Z) (rest : (list description)) (data : bytes) {struct rest} : res (lout bytes bytes) :=
      match rest with
      | [] => Ok (LDone data)
      | field :: rest' =>
        let fptr := (go_field_get ptr (description_offset field)) in
        if (description_deref field) then
          let fptr := (go_load_ptr fptr) in
          do cd_1 <- go_itf "append.cd_1" (description_codec field);
        if (gc_Omit cd_1 fptr) then
          loop1 (sadd 64 _i 1%Z) rest' data
        else
          do cd_2 <- go_itf "append.cd_2" (description_codec field);
        do r_3 <- gc_Append cd_2 fuel data fptr (description_tag field);
        let data := r_3 in
        loop1 (sadd 64 _i 1%Z) rest' data
        else
          do cd_1 <- go_itf "append.cd_1" (description_codec field);
        if (gc_Omit cd_1 fptr) then
          loop1 (sadd 64 _i 1%Z) rest' data
        else
          do cd_2 <- go_itf "append.cd_2" (description_codec field);
        do r_3 <- gc_Append cd_2 fuel data fptr (description_tag field);
        let data := r_3 in
        loop1 (sadd 64 _i 1%Z) rest' data
      end.

Lemma StructCodec_append_unfold fuel c data ptr :
  StructCodec_append fuel c data ptr =
  (do lr <- append_loop fuel ptr 0%Z (StructCodec_fields c) data;
   match lr with LRet v => Ok v | LDone data => Ok data end).
Proof. reflexivity. Qed.

Lemma append_loop_equiv fuel vs : forall fs i data,
  append_loop fuel (VStruct vs) i (map gdesc fs) data = Ok (LDone (data ++ flat_map (fenc vs) fs)).
Proof.
  induction fs as [|f r IH]; intros i data.
  - cbn [map append_loop flat_map]. rewrite app_nil_r. reflexivity.
  - cbn [map append_loop flat_map].
    cbn [gdesc description_offset description_deref description_codec description_tag go_itf bind gcodec_of gc_Omit gc_Append].
    unfold go_load_ptr, go_field_get. cbn [struct_fields]. rewrite Nat2N.id.
    assert (Hstep : forall j,
      (if omit (f_codec f) (slot vs (f_slot f))
       then append_loop fuel (VStruct vs) j (map gdesc r) data
       else append_loop fuel (VStruct vs) j (map gdesc r)
              (data ++ enc (f_codec f) (slot vs (f_slot f)) (field_tag (f_codec f) (f_index f))))
      = Ok (LDone (data ++ fenc vs f ++ flat_map (fenc vs) r))).
    { intros j. unfold fenc at 1. cbv zeta.
      destruct (omit (f_codec f) (slot vs (f_slot f))); rewrite IH; [reflexivity|]. rewrite <- app_assoc. reflexivity. }
    destruct (is_map_codec (f_codec f)); apply Hstep.
Qed.

Theorem gen_StructCodec_append : forall fs k vs data fuel,
  StructCodec_append fuel (gstruct fs k) data (VStruct vs) = Ok (data ++ flat_map (fenc vs) fs).
Proof.
  intros. rewrite StructCodec_append_unfold. cbn [gstruct StructCodec_fields]. rewrite append_loop_equiv. reflexivity.
Qed.

Lemma size_varuint_le10 v : v < two64 -> size_varuint v <= 10.
Proof.
  intros Hv. unfold size_varuint. destruct (v <? 128); [lia|].
  pose proof (size_le_64 v Hv) as H. apply N.div_le_upper_bound; lia.
Qed.

(** Size and Append of the translated struct codec = [size] and [enc] of the model's CStruct *)
Theorem gen_StructCodec_Size : forall nm n fs k vs tag fuel,
  (Z.of_N (sum_map (fsize vs) fs) < 4611686018427387904)%Z -> (Z.of_nat (length tag) < 4294967296)%Z ->
  StructCodec_Size fuel (gstruct fs k) (VStruct vs) tag = Ok (Z.of_N (size (CStruct nm n fs) (VStruct vs) tag)).
Proof.
  intros nm n fs k vs tag fuel Hs Ht. unfold StructCodec_Size. rewrite gen_StructCodec_size by lia. cbn [bind].
  cbn [size struct_fields]. fold (fsize vs). change (fun f => fsize vs f) with (fsize vs).
  set (s := sum_map (fsize vs) fs) in *.
  unfold frame_size, go_len. destruct tag as [|t tg]; [reflexivity|].
  replace (Z.eqb (Z.of_nat (length (t :: tg))) 0) with false by (symmetry; apply Z.eqb_neq; cbn [length]; lia).
  cbn [negb]. rewrite s2u64_nonneg by lia. rewrite N2Z.id.
  rewrite gen_SizeVarUint by (unfold two64; lia).
  pose proof (size_varuint_le10 s ltac:(unfold two64; lia)) as H10.
  f_equal. unfold len.
  rewrite (sadd64_small (Z.of_nat (length (t :: tg)))) by lia.
  clearbody s. remember (length (t :: tg)) as lt eqn:Elt. clear Elt. remember (size_varuint s) as sv eqn:Esv. clear Esv.
  rewrite sadd64_small by lia. lia.
Qed.

Theorem gen_StructCodec_Append : forall nm n fs k vs tag data fuel,
  fits (CStruct nm n fs) (VStruct vs) -> (len (enc (CStruct nm n fs) (VStruct vs) []) < 4611686018427387904) ->
  (10 <= fuel)%nat ->
  StructCodec_Append fuel (gstruct fs k) data (VStruct vs) tag = Ok (data ++ enc (CStruct nm n fs) (VStruct vs) tag).
Proof.
  intros nm n fs k vs tag data fuel Hfits Hlen Hfuel.
  assert (Hbody : enc (CStruct nm n fs) (VStruct vs) [] = flat_map (fenc vs) fs) by reflexivity.
  assert (Hsum : sum_map (fsize vs) fs = len (flat_map (fenc vs) fs)).
  { apply sum_flat. pose proof (fits_struct_fields nm n fs (VStruct vs) Hfits) as Hf. cbn [struct_fields] in Hf.
    rewrite Forall_forall in *. intros f Hin. unfold fsize, fenc. cbv zeta.
    destruct (omit (f_codec f) (slot vs (f_slot f))); [reflexivity|]. apply size_law. apply Hf. exact Hin. }
  rewrite Hbody in Hlen.
  unfold StructCodec_Append, go_len. cbn [enc struct_fields]. fold (fenc vs). change (fun f => fenc vs f) with (fenc vs).
  unfold frame_tag. destruct tag as [|t tg].
  - cbn [length Z.of_nat Z.eqb negb]. rewrite gen_StructCodec_append. reflexivity.
  - replace (Z.eqb (Z.of_nat (length (t :: tg))) 0) with false by (symmetry; apply Z.eqb_neq; cbn [length]; lia).
    cbn [negb]. rewrite gen_StructCodec_size by (rewrite Hsum; lia). cbn [bind].
    rewrite s2u64_nonneg by (rewrite Hsum; lia). rewrite N2Z.id.
    rewrite gen_AppendVarUint64 by (try (rewrite Hsum; unfold two64); lia). cbn [bind].
    rewrite gen_StructCodec_append. rewrite Hsum. rewrite <- !app_assoc. reflexivity.
Qed.

(** ** what the equivalence carries over: C03's statements about the struct loop hold of the code as translated *)

(** non-vacuity: a three-field struct with a nested struct, a removed field in the data and a missing one *)
Example gen_struct_ex :
  let inner := CStruct [] 1 [mkfld 0 1 [] (CInt 64)] in
  let fs := [mkfld 0 1 [] (CInt 64); mkfld 1 4 [] CString; mkfld 2 7 [] inner] in
  let data := [8; 10; 18; 1; 120; 34; 1; 107; 58; 2; 8; 6] in
  StructCodec_Read (S (length data)) (gstruct fs 8) data (VStruct [VInt 0; VStr [111]; VStruct [VInt 0]]) 2
  = Ok (VStruct [VInt 5; VStr [107]; VStruct [VInt 3]], 12%Z)
  /\ StructCodec_Append 20 (gstruct fs 8) [] (VStruct [VInt 5; VStr [107]; VStruct [VInt 3]]) []
     = Ok [8; 10; 34; 1; 107; 58; 2; 8; 6].
Proof. vm_compute. split; reflexivity. Qed.
