(** The varint scalar codecs (plenccodec/bool.go, int.go: BoolCodec,
    IntCodec[T], UintCodec[T] - the latter also under FlatIntCodec), translated
    from source by tools/gotrans on every run ([PlencGen.GenScalar], which calls
    into the translated plenccore [PlencGen.GenCore]): Size, Append, Read and
    Omit compute what the model's [size] / [enc] / [dec] / [omit] compute for
    CBool, CInt b, CUint b and CFlat b, for every value of the Go type of width
    b (the value behind the unsafe.Pointer travels as a parameter; what Read
    stores through it is handed back). *)
From Plenc Require Import Base Varint Wire VarintProofs WireProofs GoSem JsonAny Codec.
From PlencGen Require Import GenCore CoreEquiv GenScalar.
Open Scope N_scope.
Ltac Zify.zify_post_hook ::= Z.div_mod_to_equations.

Definition lenZ (l : bytes) : Z := Z.of_nat (length l).

(** ** bool *)
Theorem gen_Bool_Append : forall b data tag fuel, (10 <= fuel)%nat ->
  BoolCodec_Append fuel data b tag = Ok (data ++ enc CBool (VBool b) tag).
Proof.
  intros b data tag fuel Hf. unfold BoolCodec_Append, BoolCodec_append. cbn [enc].
  destruct b; rewrite gen_AppendVarUint64 by (unfold two64; lia || exact Hf); cbn [bind]; rewrite <- app_assoc; reflexivity.
Qed.
Theorem gen_Bool_Size : forall (b : bool) tag, (Z.of_nat (length tag) < 4611686018427387904)%Z ->
  BoolCodec_Size tt tag = Z.of_N (size CBool (VBool b) tag).
Proof.
  intros b tag Hl. unfold BoolCodec_Size, sadd, go_len. cbn [size]. rewrite swrap64_small by lia. unfold len. lia.
Qed.
Theorem gen_Bool_Omit : forall b, BoolCodec_Omit b = omit CBool (VBool b).
Proof. reflexivity. Qed.
Theorem gen_Bool_Read : forall data prior wt fuel,
  BoolCodec_Read fuel data prior wt =
  match dec CBool data (Z.to_N wt) (VBool prior) with
  | Ok (VBool b, n) => Ok (b, Z.of_N n)
  | _ => Err
  end.
Proof.
  intros data prior wt fuel. unfold BoolCodec_Read. cbn [dec]. unfold read_scalar_varuint. rewrite gen_ReadVarUint.
  destruct (read_varuint data) as [u n] eqn:E. pose proof (read_varuint_n data u n E).
  destruct (Z.ltb n 0) eqn:En; [reflexivity|]. apply Z.ltb_ge in En. f_equal. f_equal. lia.
Qed.

(** ** signed integers, zig-zag: IntCodec[T] with T of width w *)
Definition wbits (w : N) : Prop := w = 8 \/ w = 16 \/ w = 32 \/ w = 64.
Definition in_int (w : N) (z : Z) : Prop := (- Z.of_N (2 ^ (w - 1)) <= z < Z.of_N (2 ^ (w - 1)))%Z.
Lemma in_int_64 w z : wbits w -> in_int w z -> int64_ok z.
Proof. unfold in_int, int64_ok, two63Z. intros [->|[->|[->| ->]]] H; cbn in H; lia. Qed.

Theorem gen_Int_Append : forall w z data tag fuel, wbits w -> in_int w z -> (10 <= fuel)%nat ->
  IntCodec_Append fuel w data z tag = Ok (data ++ enc (CInt w) (VInt z) tag).
Proof.
  intros w z data tag fuel Hw Hz Hf. pose proof (in_int_64 w z Hw Hz) as H64. unfold int64_ok, two63Z in H64.
  unfold IntCodec_Append, IntCodec_append. cbn [enc]. unfold s2s. rewrite swrap64_small by lia.
  rewrite gen_AppendVarInt by (assumption || (unfold int64_ok, two63Z; lia)). cbn [bind]. rewrite <- app_assoc. reflexivity.
Qed.
Theorem gen_Int_Size : forall w z tag, wbits w -> in_int w z -> (Z.of_nat (length tag) < 4611686018427387904)%Z ->
  IntCodec_Size w z tag = Z.of_N (size (CInt w) (VInt z) tag).
Proof.
  intros w z tag Hw Hz Hl. pose proof (in_int_64 w z Hw Hz) as H64.
  unfold IntCodec_Size, IntCodec_size, sadd, go_len, s2s. cbn [size].
  assert (Hz64 : swrap 64 z = z) by (unfold int64_ok, two63Z in H64; apply swrap64_small; lia).
  rewrite Hz64. rewrite gen_SizeVarInt by exact H64.
  assert (Hs : size_varint z <= 10).
  { unfold size_varint. rewrite size_append_varuint by (apply zigzag_range; exact H64).
    pose proof (append_varuint_length_bounds (zigzag z)). lia. }
  rewrite swrap64_small by lia. unfold len. lia.
Qed.
Theorem gen_Int_Omit : forall w z, IntCodec_Omit w z = omit (CInt w) (VInt z).
Proof. reflexivity. Qed.
Theorem gen_Int_Read : forall w data prior wt fuel, wbits w -> bytes_ok data ->
  IntCodec_Read fuel w data prior wt =
  match dec (CInt w) data (Z.to_N wt) (VInt prior) with
  | Ok (VInt z, n) => Ok (z, Z.of_N n)
  | _ => Err
  end.
Proof.
  intros w data prior wt fuel Hw Hb. unfold IntCodec_Read. cbn [dec]. unfold read_scalar_varuint.
  rewrite gen_ReadVarInt by exact Hb. unfold read_varint.
  destruct (read_varuint data) as [u n] eqn:E. pose proof (read_varuint_n data u n E).
  pose proof (read_varuint_lt64 data u n Hb E) as Hu.
  destruct (Z.ltb n 0) eqn:En; [reflexivity|]. apply Z.ltb_ge in En. f_equal. f_equal; [|lia].
  (* T(i): the low w bits of the zig-zag decoded value, as the model's store_int *)
  pose proof (zagzig_range u Hu) as Hr. unfold int64_ok, two63Z in Hr.
  unfold store_int, s2s, swrap.
  assert (Hmod : forall k z, (k = 256 \/ k = 65536 \/ k = 4294967296) ->
            (Z.to_N (z mod Z.of_N k)) mod k = (Z.to_N (z mod 18446744073709551616)) mod k).
  { intros k z0 [->|[->| ->]]; lia. }
  destruct Hw as [->|[->|[->| ->]]]; cbn [N.eqb Pos.eqb]; try reflexivity.
  - unfold u64, two64Z, sbits, ubits. change (2 ^ 8) with 256. rewrite (Hmod 256 (zagzig u)) by auto. reflexivity.
  - unfold u64, two64Z, sbits, ubits. change (2 ^ 16) with 65536. rewrite (Hmod 65536 (zagzig u)) by auto. reflexivity.
  - unfold u64, two64Z, sbits, ubits. change (2 ^ 32) with 4294967296. rewrite (Hmod 4294967296 (zagzig u)) by auto. reflexivity.
  - fold (swrap 64 (zagzig u)). apply swrap64_small. lia.
Qed.

(** ** unsigned integers: UintCodec[T] with T of width w; on an unsigned field
    this is the model's CUint, on a signed field tagged `flat` (FlatIntCodec) the
    model's CFlat: the same code sees the field's bits as an unsigned number *)
Definition in_uint (w : N) (u : N) : Prop := u < 2 ^ w.
Lemma in_uint_64 w u : wbits w -> in_uint w u -> u < two64.
Proof. unfold in_uint, two64. intros [->|[->|[->| ->]]] H; cbn in H; lia. Qed.

Theorem gen_Uint_Append : forall w u data tag fuel, wbits w -> in_uint w u -> (10 <= fuel)%nat ->
  UintCodec_Append fuel w data u tag = Ok (data ++ enc (CUint w) (VInt (Z.of_N u)) tag).
Proof.
  intros w u data tag fuel Hw Hu Hf. pose proof (in_uint_64 w u Hw Hu) as H64. unfold two64 in H64.
  unfold UintCodec_Append, UintCodec_append. cbn [enc]. unfold u2u. change (2 ^ 64) with 18446744073709551616.
  rewrite N.mod_small by lia.
  rewrite gen_AppendVarUint64 by (assumption || (unfold two64; lia)). cbn [bind]. rewrite <- app_assoc.
  unfold u64, two64Z. rewrite Z.mod_small by lia. rewrite N2Z.id. reflexivity.
Qed.
Theorem gen_Uint_Size : forall w u tag, wbits w -> in_uint w u -> (Z.of_nat (length tag) < 4611686018427387904)%Z ->
  UintCodec_Size w u tag = Z.of_N (size (CUint w) (VInt (Z.of_N u)) tag).
Proof.
  intros w u tag Hw Hu Hl. pose proof (in_uint_64 w u Hw Hu) as H64.
  unfold UintCodec_Size, UintCodec_size, sadd, go_len, u2u. cbn [size]. change (2 ^ 64) with 18446744073709551616.
  unfold two64 in H64. rewrite N.mod_small by lia. rewrite gen_SizeVarUint by (unfold two64; lia).
  assert (Eu : u64 (Z.of_N u) = u) by (unfold u64, two64Z; rewrite Z.mod_small by lia; apply N2Z.id). rewrite Eu.
  assert (Hs : size_varuint u <= 10).
  { rewrite size_append_varuint by (unfold two64; lia). pose proof (append_varuint_length_bounds u). lia. }
  rewrite swrap64_small by lia. unfold len. lia.
Qed.
Theorem gen_Uint_Omit : forall w u, UintCodec_Omit w u = omit (CUint w) (VInt (Z.of_N u)).
Proof. intros w u. unfold UintCodec_Omit. cbn [omit]. destruct (N.eqb_spec u 0); destruct (Z.eqb_spec (Z.of_N u) 0); try reflexivity; lia. Qed.
Theorem gen_Uint_Read : forall w data prior wt fuel, wbits w ->
  UintCodec_Read fuel w data prior wt =
  match dec (CUint w) data (Z.to_N wt) (VInt (Z.of_N prior)) with
  | Ok (VInt z, n) => Ok (Z.to_N z, Z.of_N n)
  | _ => Err
  end.
Proof.
  intros w data prior wt fuel Hw. unfold UintCodec_Read. cbn [dec]. unfold read_scalar_varuint. rewrite gen_ReadVarUint.
  destruct (read_varuint data) as [u n] eqn:E. pose proof (read_varuint_n data u n E).
  destruct (Z.ltb n 0) eqn:En; [reflexivity|]. apply Z.ltb_ge in En. f_equal. f_equal; [|lia].
  unfold store_uint, u2u. rewrite N2Z.id. reflexivity.
Qed.

(** the same code on a signed field holding z (tag `flat`): what it is given is the field's bit pattern *)
Theorem gen_Flat_Append : forall w z data tag fuel, wbits w -> in_int w z -> (10 <= fuel)%nat ->
  UintCodec_Append fuel w data (ubits w z) tag = Ok (data ++ enc (CFlat w) (VInt z) tag).
Proof.
  intros w z data tag fuel Hw Hz Hf.
  assert (Hu : in_uint w (ubits w z)).
  { unfold in_uint, ubits. destruct Hw as [->|[->|[->| ->]]]; cbn; lia. }
  rewrite (gen_Uint_Append w (ubits w z) data tag fuel Hw Hu Hf). cbn [enc].
  pose proof (in_uint_64 w _ Hw Hu) as H64. unfold two64 in H64.
  unfold u64, two64Z. rewrite Z.mod_small by lia. rewrite N2Z.id. reflexivity.
Qed.
Theorem gen_Flat_Read : forall w data prior wt fuel, wbits w ->
  match UintCodec_Read fuel w data prior wt, dec (CFlat w) data (Z.to_N wt) (VInt 0) with
  | Ok (u, n), Ok (VInt z, m) => z = sbits w u /\ n = Z.of_N m
  | Err, Err => True
  | _, _ => False
  end.
Proof.
  intros w data prior wt fuel Hw. unfold UintCodec_Read. cbn [dec]. unfold read_scalar_varuint. rewrite gen_ReadVarUint.
  destruct (read_varuint data) as [u n] eqn:E. pose proof (read_varuint_n data u n E).
  destruct (Z.ltb n 0) eqn:En; [exact I|]. apply Z.ltb_ge in En. split; [|lia].
  unfold store_flat, u2u, sbits. rewrite N.mod_mod by (destruct Hw as [->|[->|[->| ->]]]; discriminate). reflexivity.
Qed.

(** ** C05 on the code as translated: Size predicts what Append writes *)
Theorem code_Int_size_law : forall w z tag fuel, wbits w -> in_int w z -> (10 <= fuel)%nat ->
  (Z.of_nat (length tag) < 4611686018427387904)%Z ->
  exists b, IntCodec_Append fuel w [] z tag = Ok b /\ IntCodec_Size w z tag = Z.of_nat (length b).
Proof.
  intros w z tag fuel Hw Hz Hf Hl. eexists. split; [apply gen_Int_Append; assumption|].
  rewrite gen_Int_Size by assumption. cbn [app enc size]. rewrite app_length.
  pose proof (in_int_64 w z Hw Hz) as H64. rewrite size_append_varint by exact H64. unfold len. lia.
Qed.
Theorem code_Uint_size_law : forall w u tag fuel, wbits w -> in_uint w u -> (10 <= fuel)%nat ->
  (Z.of_nat (length tag) < 4611686018427387904)%Z ->
  exists b, UintCodec_Append fuel w [] u tag = Ok b /\ UintCodec_Size w u tag = Z.of_nat (length b).
Proof.
  intros w u tag fuel Hw Hu Hf Hl. eexists. split; [apply gen_Uint_Append; assumption|].
  rewrite gen_Uint_Size by assumption. cbn [app enc size]. rewrite app_length.
  pose proof (in_uint_64 w u Hw Hu) as H64.
  assert (Eu : u64 (Z.of_N u) = u) by (unfold u64, two64Z; unfold two64 in H64; rewrite Z.mod_small by lia; apply N2Z.id). rewrite Eu.
  rewrite size_append_varuint by exact H64. unfold len. lia.
Qed.
Theorem code_Bool_size_law : forall b tag fuel, (10 <= fuel)%nat -> (Z.of_nat (length tag) < 4611686018427387904)%Z ->
  exists o, BoolCodec_Append fuel [] b tag = Ok o /\ BoolCodec_Size tt tag = Z.of_nat (length o).
Proof.
  intros b tag fuel Hf Hl. eexists. split; [apply gen_Bool_Append; assumption|].
  rewrite (gen_Bool_Size b) by assumption. cbn [app enc size]. rewrite app_length.
  destruct b; [change (append_varuint 1) with [1]|change (append_varuint 0) with [0]]; cbn [length]; unfold len; lia.
Qed.

(** a round trip through the translated code: what IntCodec.Append writes, IntCodec.Read reads back *)
Theorem code_Int_roundtrip : forall w z tagless_rest fuel, wbits w -> in_int w z -> (10 <= fuel)%nat -> bytes_ok tagless_rest ->
  exists b, IntCodec_Append fuel w [] z [] = Ok b /\
            IntCodec_Read fuel w (b ++ tagless_rest) 0%Z 0%Z = Ok (z, Z.of_nat (length b)).
Proof.
  intros w z rest fuel Hw Hz Hf Hr. pose proof (in_int_64 w z Hw Hz) as H64.
  exists (append_varint z). split.
  - rewrite gen_Int_Append by assumption. reflexivity.
  - rewrite gen_Int_Read; [|exact Hw|apply Forall_app; split; [apply append_varuint_bytes_ok, zigzag_range; exact H64|exact Hr]].
    cbn [dec]. unfold read_scalar_varuint, append_varint. rewrite read_append_varuint by (apply zigzag_range; exact H64).
    pose proof (append_varuint_length_bounds (zigzag z)) as Hb.
    replace (Z.of_N (len (append_varuint (zigzag z))) <? 0)%Z with false by (symmetry; apply Z.ltb_ge; lia).
    rewrite zagzig_zigzag by exact H64. f_equal. f_equal; [|unfold len; lia].
    unfold store_int. destruct Hw as [->|[->|[->| ->]]]; cbn [N.eqb Pos.eqb]; try reflexivity;
      unfold in_int in Hz; cbn in Hz; unfold u64, two64Z, sbits;
      [change (2 ^ 8) with 256; change (2 ^ (8 - 1)) with 128|change (2 ^ 16) with 65536; change (2 ^ (16 - 1)) with 32768
      |change (2 ^ 32) with 4294967296; change (2 ^ (32 - 1)) with 2147483648];
      destruct (_ <? _) eqn:Ec; [apply N.ltb_lt in Ec|apply N.ltb_ge in Ec|apply N.ltb_lt in Ec|apply N.ltb_ge in Ec|apply N.ltb_lt in Ec|apply N.ltb_ge in Ec]; lia.
Qed.

(** ** strings and byte slices (string.go): length prefix only under a tag *)
Lemma len_lenZ (s : bytes) : (Z.of_nat (length s) < 4611686018427387904)%Z -> s2u 64 (go_len s) = len s.
Proof. intros H. unfold go_len. rewrite s2u64_nonneg by lia. unfold len. lia. Qed.

Theorem gen_String_Append : forall s data tag fuel, (10 <= fuel)%nat -> (Z.of_nat (length s) < 4611686018427387904)%Z ->
  StringCodec_Append fuel data s tag = Ok (data ++ enc CString (VStr s) tag)
  /\ BytesCodec_Append fuel data s tag = Ok (data ++ enc CBytes (VStr s) tag).
Proof.
  intros s data tag fuel Hf Hl. unfold StringCodec_Append, BytesCodec_Append, StringCodec_size, BytesCodec_size, StringCodec_append, BytesCodec_append.
  cbn [enc]. unfold frame_tag, go_len at 1 3.
  destruct tag as [|t tg]; cbn [length Z.of_nat Z.eqb negb]; [split; reflexivity|].
  replace (Z.eqb (Z.of_nat (S (length tg))) 0) with false by (symmetry; apply Z.eqb_neq; lia). cbn [negb].
  rewrite (len_lenZ s Hl). rewrite gen_AppendVarUint64 by (assumption || (unfold len, two64; lia)). cbn [bind].
  rewrite <- !app_assoc. split; reflexivity.
Qed.
Theorem gen_String_Size : forall s tag, (Z.of_nat (length s) + Z.of_nat (length tag) < 4611686018427387904)%Z ->
  StringCodec_Size s tag = Z.of_N (size CString (VStr s) tag) /\ BytesCodec_Size s tag = Z.of_N (size CBytes (VStr s) tag).
Proof.
  intros s tag Hl. unfold StringCodec_Size, BytesCodec_Size, StringCodec_size, BytesCodec_size. cbn [size]. unfold frame_size.
  assert (Hs : size_varuint (len s) <= 10).
  { rewrite size_append_varuint by (unfold len, two64; lia). pose proof (append_varuint_length_bounds (len s)). lia. }
  destruct tag as [|t tg]; cbn [length] in *.
  - unfold go_len. cbn [length Z.of_nat Z.ltb Z.eqb negb]. unfold len. change (0 <? 0)%Z with false. cbv iota. split; lia.
  - unfold go_len. cbn [length].
    replace (Z.ltb 0 (Z.of_nat (S (length tg)))) with true by (symmetry; apply Z.ltb_lt; lia).
    replace (Z.eqb (Z.of_nat (S (length tg))) 0) with false by (symmetry; apply Z.eqb_neq; lia). cbn [negb].
    fold (go_len s). rewrite (len_lenZ s) by lia. rewrite gen_SizeVarUint by (unfold len, two64; lia).
    unfold sadd, go_len.
    rewrite (swrap64_small (Z.of_nat (S (length tg)) + Z.of_N (size_varuint (len s)))) by lia.
    rewrite swrap64_small by lia. unfold len. cbn [length]. split; lia.
Qed.
Theorem gen_String_Omit : forall s, StringCodec_Omit s = omit CString (VStr s) /\ BytesCodec_Omit s = omit CBytes (VStr s).
Proof. intros s. unfold StringCodec_Omit, BytesCodec_Omit, go_len. cbn [omit]. destruct s; cbn [length]; split; try reflexivity; apply Z.eqb_neq; lia. Qed.
Theorem gen_String_Read : forall data prior wt fuel,
  StringCodec_Read fuel data prior wt = match dec CString data (Z.to_N wt) (VStr prior) with Ok (VStr s, n) => Ok (s, Z.of_N n) | _ => Err end
  /\ BytesCodec_Read fuel data prior wt = match dec CBytes data (Z.to_N wt) (VStr prior) with Ok (VStr s, n) => Ok (s, Z.of_N n) | _ => Err end.
Proof. intros. unfold StringCodec_Read, BytesCodec_Read, go_len. cbn [dec app]. unfold len. split; do 2 f_equal; lia. Qed.

Theorem code_String_size_law : forall s tag fuel, (10 <= fuel)%nat -> (Z.of_nat (length s) + Z.of_nat (length tag) < 4611686018427387904)%Z ->
  exists b, StringCodec_Append fuel [] s tag = Ok b /\ StringCodec_Size s tag = Z.of_nat (length b).
Proof.
  intros s tag fuel Hf Hl. eexists. split; [apply gen_String_Append; [exact Hf|lia]|].
  rewrite (proj1 (gen_String_Size s tag Hl)). cbn [app enc size]. unfold frame_tag, frame_size.
  destruct tag as [|t tg]; [unfold len; lia|].
  cbn [length]. rewrite !app_length. rewrite size_append_varuint by (unfold len, two64; lia). unfold len. cbn [length]. lia.
Qed.

(** ** floats (float.go): 4 / 8 little-endian bytes of the IEEE bit pattern *)
Lemma go_le_put_model n v : go_le_put n v = le_bytes n v.
Proof. revert v. induction n as [|n IH]; intros v; [reflexivity|]. cbn [go_le_put]. rewrite IH. reflexivity. Qed.
Lemma go_le_val_model l : go_le_val l = le_value l.
Proof. induction l as [|b r IH]; [reflexivity|]. cbn [go_le_val le_value]. rewrite IH. reflexivity. Qed.

Theorem gen_Float_Append : forall b data tag fuel,
  Float64Codec_Append fuel data b tag = Ok (data ++ enc CF64 (VF64 b) tag)
  /\ Float32Codec_Append fuel data b tag = Ok (data ++ enc CF32 (VF32 b) tag).
Proof.
  intros. unfold Float64Codec_Append, Float64Codec_append, Float32Codec_Append, Float32Codec_append. cbn [bind enc].
  rewrite !go_le_put_model, <- !app_assoc. split; reflexivity.
Qed.
Theorem gen_Float_Size : forall (b : N) tag, (Z.of_nat (length tag) < 4611686018427387904)%Z ->
  Float64Codec_Size tt tag = Z.of_N (size CF64 (VF64 b) tag) /\ Float32Codec_Size tt tag = Z.of_N (size CF32 (VF32 b) tag).
Proof.
  intros b tag Hl. unfold Float64Codec_Size, Float32Codec_Size, sadd, go_len. cbn [size]. rewrite !swrap64_small by lia. unfold len. split; lia.
Qed.
Theorem gen_Float_Omit : forall b, Float64Codec_Omit b = omit CF64 (VF64 b) /\ Float32Codec_Omit b = omit CF32 (VF32 b).
Proof. intros b. split; reflexivity. Qed.
Theorem gen_Float_Read : forall data prior wt fuel,
  Float64Codec_Read fuel data prior wt = match dec CF64 data (Z.to_N wt) (VF64 prior) with Ok (VF64 b, n) => Ok (b, Z.of_N n) | _ => Err end
  /\ Float32Codec_Read fuel data prior wt = match dec CF32 data (Z.to_N wt) (VF32 prior) with Ok (VF32 b, n) => Ok (b, Z.of_N n) | _ => Err end.
Proof.
  intros data prior wt fuel. unfold Float64Codec_Read, Float32Codec_Read, go_le_get, go_len. cbn [dec]. unfold len.
  split.
  - destruct (N.of_nat (length data) <? 8) eqn:E.
    + apply N.ltb_lt in E. replace (Z.ltb (Z.of_nat (length data)) 8) with true by (symmetry; apply Z.ltb_lt; lia).
      destruct data as [|x r]; [reflexivity|]. cbn [length].
      replace (Z.eqb (Z.of_nat (S (length r))) 0) with false by (symmetry; apply Z.eqb_neq; lia). reflexivity.
    + apply N.ltb_ge in E. replace (Z.ltb (Z.of_nat (length data)) 8) with false by (symmetry; apply Z.ltb_ge; lia).
      replace (Z.of_nat (length data) <? Z.of_nat 8)%Z with false by (symmetry; apply Z.ltb_ge; lia). cbn [bind].
      rewrite go_le_val_model. reflexivity.
  - destruct (N.of_nat (length data) <? 4) eqn:E.
    + apply N.ltb_lt in E. replace (Z.ltb (Z.of_nat (length data)) 4) with true by (symmetry; apply Z.ltb_lt; lia).
      destruct data as [|x r]; [reflexivity|]. cbn [length].
      replace (Z.eqb (Z.of_nat (S (length r))) 0) with false by (symmetry; apply Z.eqb_neq; lia). reflexivity.
    + apply N.ltb_ge in E. replace (Z.ltb (Z.of_nat (length data)) 4) with false by (symmetry; apply Z.ltb_ge; lia).
      replace (Z.of_nat (length data) <? Z.of_nat 4)%Z with false by (symmetry; apply Z.ltb_ge; lia). cbn [bind].
      rewrite go_le_val_model. reflexivity.
Qed.
