(** The time codecs of plenccodec/time.go as translated from the Go source
    ([PlencGen.GenTime], generated on every run by tools/gotrans on top of the
    translated scalar codecs [PlencGen.GenScalar] and plenccore) compute the
    model's [dec] / [size] / [enc] / [omit] for [CTime false] (TimeCodec),
    [CTime true] (TimeCompatCodec: the protobuf Timestamp form) and [CBQ]
    (BQTimestampCodec).  A [time.Time] is the pair (Unix seconds, nanosecond);
    GoMem.v states what is trusted about package time. *)
From Plenc Require Import Base Varint Wire VarintProofs WireProofs GoSem JsonAny Codec SizeProofs DecBase DecProofs GoMem.
From PlencGen Require Import GenCore CoreEquiv GenScalar ScalarEquiv GenTime.
Open Scope N_scope.

Definition tval (t : gtime) : val := VTime (fst t) (snd t).

Definition lift_time (r : res (val * N)) : res (gtime * Z) :=
  match r with
  | Ok (VTime s n, used) => Ok ((s, n), Z.of_N used)
  | Ok _ => Err
  | Err => Err | Panic s => Panic s | Hang s => Hang s | Blowup s => Blowup s
  end.

Lemma time_tags : varInt1Tag = [8] /\ varInt2Tag = [16].
Proof. split; vm_compute; reflexivity. Qed.

(** ** helpers *)
Lemma bytes_ok_skipn n (l : bytes) : bytes_ok l -> bytes_ok (skipn n l).
Proof. unfold bytes_ok. revert l. induction n as [|n IH]; intros l H; [exact H|]. destruct l; [exact H|]. inversion H; subst. cbn [skipn]. auto. Qed.

Lemma go_slice_from_ok site (data : bytes) off : (0 <= off <= Z.of_nat (length data))%Z ->
  go_slice_from site data off = Ok (skipn (Z.to_nat off) data).
Proof.
  intros H. unfold go_slice_from, go_len.
  replace ((off <? 0) || (Z.of_nat (length data) <? off))%Z with false; [reflexivity|].
  symmetry. apply orb_false_iff. split; apply Z.ltb_ge; lia.
Qed.

Lemma sadd64_small a b : (- 9223372036854775808 <= a + b < 9223372036854775808)%Z -> sadd 64 a b = (a + b)%Z.
Proof. intros H. unfold sadd. apply swrap64_small. exact H. Qed.

Definition in32 (z : Z) : Prop := (- 2147483648 <= z < 2147483648)%Z.
Lemma sbits32_range n : in32 (sbits 32 n).
Proof.
  unfold in32, sbits. change (2 ^ 32) with 4294967296. change (2 ^ (32 - 1)) with 2147483648.
  pose proof (N.mod_lt n 4294967296 ltac:(lia)). destruct (N.ltb_spec (n mod 4294967296) 2147483648); lia.
Qed.
Lemma s2s64_in32 z : in32 z -> s2s 64 z = z.
Proof. unfold in32. intros H. unfold s2s. apply swrap64_small. lia. Qed.

(** the fields: what the two integer codecs read *)
Lemma int_read_64 F sl p wt : bytes_ok sl ->
  GenScalar.IntCodec_Read F 64 sl p wt =
  (let '(u, k) := read_varuint sl in if (k <? 0)%Z then Err else Ok (zagzig u, k)).
Proof.
  intros Hb. rewrite gen_Int_Read by (auto; unfold wbits; auto). cbn [dec]. unfold read_scalar_varuint.
  destruct (read_varuint sl) as [u k] eqn:E. pose proof (read_varuint_n sl u k E).
  destruct (Z.ltb k 0) eqn:Ek; [reflexivity|]. apply Z.ltb_ge in Ek. unfold store_int. cbn [N.eqb Pos.eqb].
  f_equal. f_equal. lia.
Qed.
Lemma int_read_32 F sl p wt : bytes_ok sl ->
  GenScalar.IntCodec_Read F 32 sl p wt =
  (let '(u, k) := read_varuint sl in if (k <? 0)%Z then Err else Ok (sbits 32 (u64 (zagzig u)), k)).
Proof.
  intros Hb. rewrite gen_Int_Read by (auto; unfold wbits; auto). cbn [dec]. unfold read_scalar_varuint.
  destruct (read_varuint sl) as [u k] eqn:E. pose proof (read_varuint_n sl u k E).
  destruct (Z.ltb k 0) eqn:Ek; [reflexivity|]. apply Z.ltb_ge in Ek. unfold store_int. cbn [N.eqb Pos.eqb].
  f_equal. f_equal. lia.
Qed.

(** ** TimeCodec.Read *)
Definition time_read_loop (data : bytes) (fuel : nat) (l : Z) :=
  fix loop1 (fuel' : nat) (e : ptime) (offset : Z) {struct fuel'} : res (lout (gtime * Z) (ptime * Z)) :=
      match fuel' with
      | O => Hang "Read.loop1"
      | S fuel' =>
        if (Z.ltb offset l) then
        do sl_1 <- go_slice_from "Read.sl_1" data offset;
        let '(wt, index_, n) := (GenCore.ReadTag sl_1) in
        if (Z.leb n 0%Z) then
          Err
        else
          let offset := (sadd 64 offset n) in
        if (Z.eqb index_ 1%Z) then
          do sl_2 <- go_slice_from "Read.sl_2" data offset;
          do r_3 <- GenScalar.IntCodec_Read fuel 64 sl_2 (ptime_Seconds e) wt;
          let '(pv_4, n) := r_3 in
          let e := set_ptime_Seconds e pv_4 in
          let offset := (sadd 64 offset n) in
          loop1 fuel' e offset
        else if (Z.eqb index_ 2%Z) then
          do sl_5 <- go_slice_from "Read.sl_5" data offset;
          do r_6 <- GenScalar.IntCodec_Read fuel 32 sl_5 (ptime_Nanoseconds e) wt;
          let '(pv_7, n) := r_6 in
          let e := set_ptime_Nanoseconds e pv_7 in
          let offset := (sadd 64 offset n) in
          loop1 fuel' e offset
        else do sl_8 <- go_slice_from "Read.sl_8" data offset;
          do r_9 <- GenCore.Skip fuel sl_8 wt;
          let 'n := r_9 in
          let offset := (sadd 64 offset n) in
          loop1 fuel' e offset
        else Ok (LDone (e, offset))
      end.

Definition lift_loop (r : res (Z * Z * N)) : res (gtime * Z) :=
  match r with
  | Ok (s, ns, used) => Ok (go_time_Unix s ns, Z.of_N used)
  | Err => Err | Panic s => Panic s | Hang s => Hang s | Blowup s => Blowup s
  end.

Section TimeLoop.
Variable data : bytes.
Variable F : nat.
Hypothesis Hb : bytes_ok data.
Hypothesis Hlen : (Z.of_nat (length data) < 4611686018427387904)%Z.
Hypothesis HF : (length data < F)%nat.
Let l := Z.of_nat (length data).

Lemma time_read_loop_equiv : forall f offset e, (0 <= offset <= l)%Z -> in32 (ptime_Nanoseconds e) ->
  (length (skipn (Z.to_nat offset) data) < f)%nat ->
  (do lr <- time_read_loop data F l f e offset;
   match lr with LRet v => Ok v | LDone (e, offset) => Ok (ptime_Standard e, offset) end)
  = lift_loop (time_loop false f (skipn (Z.to_nat offset) data) (Z.to_N offset) (ptime_Seconds e) (ptime_Nanoseconds e)).
Proof.
  induction f as [|f IH]; intros offset e Hoff Hns Hf; [lia|].
  cbn [time_read_loop time_loop].
  set (rest := skipn (Z.to_nat offset) data) in *.
  assert (Hrl : length rest = (length data - Z.to_nat offset)%nat) by (unfold rest; apply skipn_length).
  destruct (Z.ltb offset l) eqn:Eol.
  2:{ apply Z.ltb_ge in Eol. destruct rest as [|b r]; [|cbn [length] in Hrl; unfold l in *; lia].
      cbn [bind lift_loop]. unfold ptime_Standard. rewrite s2s64_in32 by exact Hns. f_equal. f_equal. unfold l in *. lia. }
  apply Z.ltb_lt in Eol. destruct rest as [|b0 r0] eqn:Er; [cbn [length] in Hrl; unfold l in *; lia|]. rewrite <- Er in *.
  rewrite go_slice_from_ok by (fold l; lia). cbn [bind]. fold rest.
  assert (Hbr : bytes_ok rest) by (apply bytes_ok_skipn; exact Hb).
  rewrite (gen_ReadTag rest Hbr).
  replace (match rest with [] => Ok (ptime_Seconds e, ptime_Nanoseconds e, Z.to_N offset) | _ :: _ =>
     let '(wt, index, n) := read_tag rest in
     if (n <=? 0)%Z then Err else
     do rest1 <- go_drop "TimeCodec.Read data[offset:]" (Z.to_N n) rest;
     let c1 := Z.to_N offset + Z.to_N n in
     if ((index =? 1) || (index =? 2))%Z then
       let '(u, k) := read_varuint rest1 in
       if (k <? 0)%Z then Err else
       do rest2 <- go_drop "TimeCodec.Read data[offset:]" (Z.to_N k) rest1;
       if (index =? 1)%Z
       then time_loop false f rest2 (c1 + Z.to_N k) (if false then s64 u else zagzig u) (ptime_Nanoseconds e)
       else time_loop false f rest2 (c1 + Z.to_N k) (ptime_Seconds e) (if false then sbits 32 u else sbits 32 (u64 (zagzig u)))
     else
       do k <- skip rest1 wt;
       do rest2 <- go_drop "TimeCodec.Read data[offset:]" k rest1;
       time_loop false f rest2 (c1 + k) (ptime_Seconds e) (ptime_Nanoseconds e) end)
  with (let '(wt, index, n) := read_tag rest in
     if (n <=? 0)%Z then Err else
     do rest1 <- go_drop "TimeCodec.Read data[offset:]" (Z.to_N n) rest;
     let c1 := Z.to_N offset + Z.to_N n in
     if ((index =? 1) || (index =? 2))%Z then
       let '(u, k) := read_varuint rest1 in
       if (k <? 0)%Z then Err else
       do rest2 <- go_drop "TimeCodec.Read data[offset:]" (Z.to_N k) rest1;
       if (index =? 1)%Z
       then time_loop false f rest2 (c1 + Z.to_N k) (zagzig u) (ptime_Nanoseconds e)
       else time_loop false f rest2 (c1 + Z.to_N k) (ptime_Seconds e) (sbits 32 (u64 (zagzig u)))
     else
       do k <- skip rest1 wt;
       do rest2 <- go_drop "TimeCodec.Read data[offset:]" k rest1;
       time_loop false f rest2 (c1 + k) (ptime_Seconds e) (ptime_Nanoseconds e)) by (rewrite Er; reflexivity).
  destruct (read_tag rest) as [[wt index] n] eqn:Et.
  pose proof (read_tag_n _ _ _ _ Et) as Hn.
  assert (Hwt : wt < 8).
  { unfold read_tag in Et. destruct (read_varuint rest) as [v k0]. inversion Et; subst. apply N.mod_lt; lia. }
  destruct (Z.leb n 0) eqn:En0; [reflexivity|]. apply Z.leb_gt in En0.
  unfold len in Hn.
  destruct (go_drop_ok "TimeCodec.Read data[offset:]" (Z.to_N n) rest ltac:(unfold len; lia)) as [E1 L1].
  rewrite E1. cbn [bind]. unfold len in L1.
  set (rest1 := skipn (N.to_nat (Z.to_N n)) rest) in *.
  assert (Hr1 : rest1 = skipn (Z.to_nat (offset + n)) data).
  { unfold rest1, rest. rewrite skipn_skipn'. f_equal. lia. }
  assert (Hl1 : length rest1 = (length data - Z.to_nat (offset + n))%nat) by (rewrite Hr1; apply skipn_length).
  assert (Ho1 : sadd 64 offset n = (offset + n)%Z) by (apply sadd64_small; unfold l in *; lia).
  rewrite Ho1.
  assert (Hb1 : bytes_ok rest1) by (rewrite Hr1; apply bytes_ok_skipn; exact Hb).
  assert (Hadv : forall k used e', (0 <= k)%Z -> (Z.to_N k <= N.of_nat (length rest1)) -> in32 (ptime_Nanoseconds e') ->
     used = Z.to_N k ->
     (do lr <- time_read_loop data F l f e' (sadd 64 (offset + n) k);
      match lr with LRet v => Ok v | LDone (e, offset) => Ok (ptime_Standard e, offset) end)
     = lift_loop (do rest2 <- go_drop "TimeCodec.Read data[offset:]" used rest1;
                  time_loop false f rest2 (Z.to_N offset + Z.to_N n + used) (ptime_Seconds e') (ptime_Nanoseconds e'))).
  { intros k used e' Hk0 Hk He' ->.
    destruct (go_drop_ok "TimeCodec.Read data[offset:]" (Z.to_N k) rest1 ltac:(unfold len; lia)) as [E2 L2].
    rewrite E2. cbn [bind].
    rewrite sadd64_small by (unfold l in *; lia).
    rewrite Hr1, skipn_skipn'.
    replace (Z.to_nat (offset + n) + N.to_nat (Z.to_N k))%nat with (Z.to_nat (offset + n + k)) by lia.
    replace (Z.to_N offset + Z.to_N n + Z.to_N k) with (Z.to_N (offset + n + k)) by lia.
    apply IH; [unfold l in *; lia|exact He'|]. rewrite skipn_length. unfold l in *. lia. }
  destruct (Z.eqb index 1) eqn:E1x.
  - (* seconds *)
    cbn [orb]. rewrite go_slice_from_ok by (fold l; unfold l in *; lia). cbn [bind]. rewrite <- Hr1.
    rewrite int_read_64 by exact Hb1.
    destruct (read_varuint rest1) as [u k] eqn:Erv. pose proof (read_varuint_n rest1 u k Erv) as Hk. unfold len in Hk.
    destruct (Z.ltb k 0) eqn:Ek; [reflexivity|]. apply Z.ltb_ge in Ek. cbn [bind].
    apply (Hadv k (Z.to_N k) (set_ptime_Seconds e (zagzig u))); [lia|lia|exact Hns|reflexivity].
  - destruct (Z.eqb index 2) eqn:E2x.
    + (* nanoseconds *)
      cbn [orb]. rewrite go_slice_from_ok by (fold l; unfold l in *; lia). cbn [bind]. rewrite <- Hr1.
      rewrite int_read_32 by exact Hb1.
      destruct (read_varuint rest1) as [u k] eqn:Erv. pose proof (read_varuint_n rest1 u k Erv) as Hk. unfold len in Hk.
      destruct (Z.ltb k 0) eqn:Ek; [reflexivity|]. apply Z.ltb_ge in Ek. cbn [bind].
      apply (Hadv k (Z.to_N k) (set_ptime_Nanoseconds e (sbits 32 (u64 (zagzig u))))); [lia|lia|apply sbits32_range|reflexivity].
    + (* any other index: skipped *)
      cbn [orb]. rewrite go_slice_from_ok by (fold l; unfold l in *; lia). cbn [bind]. rewrite <- Hr1.
      rewrite gen_Skip_fuel; [|exact Hb1|lia|lia|lia]. rewrite N2Z.id.
      pose proof (skip_total rest1 wt) as T. pose proof (skip_bounded rest1 wt) as B.
      destruct (skip rest1 wt) as [k| | | |]; cbn [bind is_ok_or_err lift lift_loop] in *; try contradiction; [|reflexivity].
      specialize (B k eq_refl). unfold len in B.
      apply (Hadv (Z.of_N k) k e); [lia|lia|exact Hns|lia].
Qed.
End TimeLoop.

Lemma TimeCodec_Read_unfold fuel data ptr wt :
  TimeCodec_Read fuel data ptr wt =
  (if Z.eqb (go_len data) 0 then Ok (go_time_zero, 0%Z)
   else do lr <- time_read_loop data fuel (go_len data) fuel (mkptime 0%Z 0%Z) 0%Z;
        match lr with LRet v => Ok v | LDone (e, offset) => Ok (ptime_Standard e, offset) end).
Proof. reflexivity. Qed.

(** TimeCodec.Read as translated is the model's [dec (CTime false)] *)
Theorem gen_Time_Read : forall data prior wt, bytes_ok data -> (Z.of_nat (length data) < 4611686018427387904)%Z ->
  TimeCodec_Read (S (length data)) data prior wt = lift_time (dec (CTime false) data (Z.to_N wt) (tval prior)).
Proof.
  intros data prior wt Hb Hlen. rewrite TimeCodec_Read_unfold. cbn [dec]. unfold go_len.
  destruct data as [|b0 r0] eqn:Ed; [reflexivity|]. rewrite <- Ed in *.
  replace (Z.eqb (Z.of_nat (length data)) 0) with false by (symmetry; apply Z.eqb_neq; rewrite Ed; cbn [length]; lia).
  pose proof (time_read_loop_equiv data (S (length data)) Hb Hlen ltac:(lia) (S (length data)) 0%Z (mkptime 0%Z 0%Z)) as H.
  cbn [ptime_Seconds ptime_Nanoseconds Z.to_nat skipn Z.to_N] in H.
  rewrite H; [|lia|unfold in32; lia|lia].
  replace (match data with [] => Ok (VTime zero_sec 0, 0) | _ :: _ =>
             do (s, ns, used) <- time_loop false (S (length data)) data 0 0%Z 0%Z; Ok (time_norm s ns, used) end)
    with (do (s, ns, used) <- time_loop false (S (length data)) data 0 0%Z 0%Z; Ok (time_norm s ns, used))
    by (rewrite Ed; reflexivity).
  destruct (time_loop false (S (length data)) data 0 0%Z 0%Z) as [[[s ns] used]| | | |]; reflexivity.
Qed.

(** ** TimeCompatCodec.Read: the protobuf Timestamp form - plain varints, the fields' bits seen as unsigned *)
Definition compat_read_loop (data : bytes) (fuel : nat) (l : Z) :=
  fix loop1 (fuel' : nat) (e : ptime) (offset : Z) {struct fuel'} : res (lout (gtime * Z) (ptime * Z)) :=
      match fuel' with
      | O => Hang "Read.loop1"
      | S fuel' =>
        if (Z.ltb offset l) then
        do sl_1 <- go_slice_from "Read.sl_1" data offset;
        let '(wt, index_, n) := (GenCore.ReadTag sl_1) in
        if (Z.leb n 0%Z) then
          Err
        else
          let offset := (sadd 64 offset n) in
        if (Z.eqb index_ 1%Z) then
          do sl_2 <- go_slice_from "Read.sl_2" data offset;
          do r_3 <- GenScalar.UintCodec_Read fuel 64 sl_2 (s2u 64 (ptime_Seconds e)) wt;
          let '(pv_4, n) := r_3 in
          let e := set_ptime_Seconds e (u2s 64 pv_4) in
          let offset := (sadd 64 offset n) in
          loop1 fuel' e offset
        else if (Z.eqb index_ 2%Z) then
          do sl_5 <- go_slice_from "Read.sl_5" data offset;
          do r_6 <- GenScalar.UintCodec_Read fuel 32 sl_5 (s2u 32 (ptime_Nanoseconds e)) wt;
          let '(pv_7, n) := r_6 in
          let e := set_ptime_Nanoseconds e (u2s 32 pv_7) in
          let offset := (sadd 64 offset n) in
          loop1 fuel' e offset
        else do sl_8 <- go_slice_from "Read.sl_8" data offset;
          do r_9 <- GenCore.Skip fuel sl_8 wt;
          let 'n := r_9 in
          let offset := (sadd 64 offset n) in
          loop1 fuel' e offset
        else Ok (LDone (e, offset))
      end.

Lemma uint_read F w sl p wt : wbits w ->
  GenScalar.UintCodec_Read F w sl p wt =
  (let '(u, k) := read_varuint sl in if (k <? 0)%Z then Err else Ok (u mod 2 ^ w, k)).
Proof.
  intros Hw. rewrite gen_Uint_Read by exact Hw. cbn [dec]. unfold read_scalar_varuint.
  destruct (read_varuint sl) as [u k] eqn:E. pose proof (read_varuint_n sl u k E).
  destruct (Z.ltb k 0) eqn:Ek; [reflexivity|]. apply Z.ltb_ge in Ek.
  unfold store_uint. rewrite N2Z.id. f_equal. f_equal. lia.
Qed.
Lemma u2s64_mod u : u2s 64 (u mod 2 ^ 64) = s64 u.
Proof.
  unfold u2s, sbits, s64, two64, two63, two64Z. change (2 ^ 64) with 18446744073709551616. change (2 ^ (64 - 1)) with 9223372036854775808.
  rewrite N.mod_mod by lia. reflexivity.
Qed.
Lemma u2s32_mod u : u2s 32 (u mod 2 ^ 32) = sbits 32 u.
Proof. unfold u2s, sbits. change (2 ^ 32) with 4294967296. rewrite N.mod_mod by lia. reflexivity. Qed.

Section CompatLoop.
Variable data : bytes.
Variable F : nat.
Hypothesis Hb : bytes_ok data.
Hypothesis Hlen : (Z.of_nat (length data) < 4611686018427387904)%Z.
Hypothesis HF : (length data < F)%nat.
Let l := Z.of_nat (length data).

Lemma compat_read_loop_equiv : forall f offset e, (0 <= offset <= l)%Z -> in32 (ptime_Nanoseconds e) ->
  (length (skipn (Z.to_nat offset) data) < f)%nat ->
  (do lr <- compat_read_loop data F l f e offset;
   match lr with LRet v => Ok v | LDone (e, offset) => Ok (ptime_Standard e, offset) end)
  = lift_loop (time_loop true f (skipn (Z.to_nat offset) data) (Z.to_N offset) (ptime_Seconds e) (ptime_Nanoseconds e)).
Proof.
  induction f as [|f IH]; intros offset e Hoff Hns Hf; [lia|].
  cbn [compat_read_loop time_loop].
  set (rest := skipn (Z.to_nat offset) data) in *.
  assert (Hrl : length rest = (length data - Z.to_nat offset)%nat) by (unfold rest; apply skipn_length).
  destruct (Z.ltb offset l) eqn:Eol.
  2:{ apply Z.ltb_ge in Eol. destruct rest as [|b r]; [|cbn [length] in Hrl; unfold l in *; lia].
      cbn [bind lift_loop]. unfold ptime_Standard. rewrite s2s64_in32 by exact Hns. f_equal. f_equal. unfold l in *. lia. }
  apply Z.ltb_lt in Eol. destruct rest as [|b0 r0] eqn:Er; [cbn [length] in Hrl; unfold l in *; lia|]. rewrite <- Er in *.
  rewrite go_slice_from_ok by (fold l; lia). cbn [bind]. fold rest.
  assert (Hbr : bytes_ok rest) by (apply bytes_ok_skipn; exact Hb).
  rewrite (gen_ReadTag rest Hbr).
  replace (match rest with [] => Ok (ptime_Seconds e, ptime_Nanoseconds e, Z.to_N offset) | _ :: _ =>
     let '(wt, index, n) := read_tag rest in
     if (n <=? 0)%Z then Err else
     do rest1 <- go_drop "TimeCodec.Read data[offset:]" (Z.to_N n) rest;
     let c1 := Z.to_N offset + Z.to_N n in
     if ((index =? 1) || (index =? 2))%Z then
       let '(u, k) := read_varuint rest1 in
       if (k <? 0)%Z then Err else
       do rest2 <- go_drop "TimeCodec.Read data[offset:]" (Z.to_N k) rest1;
       if (index =? 1)%Z
       then time_loop true f rest2 (c1 + Z.to_N k) (if true then s64 u else zagzig u) (ptime_Nanoseconds e)
       else time_loop true f rest2 (c1 + Z.to_N k) (ptime_Seconds e) (if true then sbits 32 u else sbits 32 (u64 (zagzig u)))
     else
       do k <- skip rest1 wt;
       do rest2 <- go_drop "TimeCodec.Read data[offset:]" k rest1;
       time_loop true f rest2 (c1 + k) (ptime_Seconds e) (ptime_Nanoseconds e) end)
  with (let '(wt, index, n) := read_tag rest in
     if (n <=? 0)%Z then Err else
     do rest1 <- go_drop "TimeCodec.Read data[offset:]" (Z.to_N n) rest;
     let c1 := Z.to_N offset + Z.to_N n in
     if ((index =? 1) || (index =? 2))%Z then
       let '(u, k) := read_varuint rest1 in
       if (k <? 0)%Z then Err else
       do rest2 <- go_drop "TimeCodec.Read data[offset:]" (Z.to_N k) rest1;
       if (index =? 1)%Z
       then time_loop true f rest2 (c1 + Z.to_N k) (s64 u) (ptime_Nanoseconds e)
       else time_loop true f rest2 (c1 + Z.to_N k) (ptime_Seconds e) (sbits 32 u)
     else
       do k <- skip rest1 wt;
       do rest2 <- go_drop "TimeCodec.Read data[offset:]" k rest1;
       time_loop true f rest2 (c1 + k) (ptime_Seconds e) (ptime_Nanoseconds e)) by (rewrite Er; reflexivity).
  destruct (read_tag rest) as [[wt index] n] eqn:Et.
  pose proof (read_tag_n _ _ _ _ Et) as Hn.
  assert (Hwt : wt < 8).
  { unfold read_tag in Et. destruct (read_varuint rest) as [v k0]. inversion Et; subst. apply N.mod_lt; lia. }
  destruct (Z.leb n 0) eqn:En0; [reflexivity|]. apply Z.leb_gt in En0.
  unfold len in Hn.
  destruct (go_drop_ok "TimeCodec.Read data[offset:]" (Z.to_N n) rest ltac:(unfold len; lia)) as [E1 L1].
  rewrite E1. cbn [bind]. unfold len in L1.
  set (rest1 := skipn (N.to_nat (Z.to_N n)) rest) in *.
  assert (Hr1 : rest1 = skipn (Z.to_nat (offset + n)) data).
  { unfold rest1, rest. rewrite skipn_skipn'. f_equal. lia. }
  assert (Hl1 : length rest1 = (length data - Z.to_nat (offset + n))%nat) by (rewrite Hr1; apply skipn_length).
  assert (Ho1 : sadd 64 offset n = (offset + n)%Z) by (apply sadd64_small; unfold l in *; lia).
  rewrite Ho1.
  assert (Hb1 : bytes_ok rest1) by (rewrite Hr1; apply bytes_ok_skipn; exact Hb).
  assert (Hadv : forall k used e', (0 <= k)%Z -> (Z.to_N k <= N.of_nat (length rest1)) -> in32 (ptime_Nanoseconds e') ->
     used = Z.to_N k ->
     (do lr <- compat_read_loop data F l f e' (sadd 64 (offset + n) k);
      match lr with LRet v => Ok v | LDone (e, offset) => Ok (ptime_Standard e, offset) end)
     = lift_loop (do rest2 <- go_drop "TimeCodec.Read data[offset:]" used rest1;
                  time_loop true f rest2 (Z.to_N offset + Z.to_N n + used) (ptime_Seconds e') (ptime_Nanoseconds e'))).
  { intros k used e' Hk0 Hk He' ->.
    destruct (go_drop_ok "TimeCodec.Read data[offset:]" (Z.to_N k) rest1 ltac:(unfold len; lia)) as [E2 L2].
    rewrite E2. cbn [bind].
    rewrite sadd64_small by (unfold l in *; lia).
    rewrite Hr1, skipn_skipn'.
    replace (Z.to_nat (offset + n) + N.to_nat (Z.to_N k))%nat with (Z.to_nat (offset + n + k)) by lia.
    replace (Z.to_N offset + Z.to_N n + Z.to_N k) with (Z.to_N (offset + n + k)) by lia.
    apply IH; [unfold l in *; lia|exact He'|]. rewrite skipn_length. unfold l in *. lia. }
  destruct (Z.eqb index 1) eqn:E1x.
  - (* seconds *)
    cbn [orb]. rewrite go_slice_from_ok by (fold l; unfold l in *; lia). cbn [bind]. rewrite <- Hr1.
    rewrite uint_read by (unfold wbits; auto).
    destruct (read_varuint rest1) as [u k] eqn:Erv. pose proof (read_varuint_n rest1 u k Erv) as Hk. unfold len in Hk.
    destruct (Z.ltb k 0) eqn:Ek; [reflexivity|]. apply Z.ltb_ge in Ek. cbn [bind]. rewrite u2s64_mod.
    apply (Hadv k (Z.to_N k) (set_ptime_Seconds e (s64 u))); [lia|lia|exact Hns|reflexivity].
  - destruct (Z.eqb index 2) eqn:E2x.
    + (* nanoseconds *)
      cbn [orb]. rewrite go_slice_from_ok by (fold l; unfold l in *; lia). cbn [bind]. rewrite <- Hr1.
      rewrite uint_read by (unfold wbits; auto).
      destruct (read_varuint rest1) as [u k] eqn:Erv. pose proof (read_varuint_n rest1 u k Erv) as Hk. unfold len in Hk.
      destruct (Z.ltb k 0) eqn:Ek; [reflexivity|]. apply Z.ltb_ge in Ek. cbn [bind]. rewrite u2s32_mod.
      apply (Hadv k (Z.to_N k) (set_ptime_Nanoseconds e (sbits 32 u))); [lia|lia|apply sbits32_range|reflexivity].
    + (* any other index: skipped *)
      cbn [orb]. rewrite go_slice_from_ok by (fold l; unfold l in *; lia). cbn [bind]. rewrite <- Hr1.
      rewrite gen_Skip_fuel; [|exact Hb1|lia|lia|lia]. rewrite N2Z.id.
      pose proof (skip_total rest1 wt) as T. pose proof (skip_bounded rest1 wt) as B.
      destruct (skip rest1 wt) as [k| | | |]; cbn [bind is_ok_or_err lift lift_loop] in *; try contradiction; [|reflexivity].
      specialize (B k eq_refl). unfold len in B.
      apply (Hadv (Z.of_N k) k e); [lia|lia|exact Hns|lia].
Qed.
End CompatLoop.

Lemma TimeCompatCodec_Read_unfold fuel data ptr wt :
  TimeCompatCodec_Read fuel data ptr wt =
  (if Z.eqb (go_len data) 0 then Ok (go_time_zero, 0%Z)
   else do lr <- compat_read_loop data fuel (go_len data) fuel (mkptime 0%Z 0%Z) 0%Z;
        match lr with LRet v => Ok v | LDone (e, offset) => Ok (ptime_Standard e, offset) end).
Proof. reflexivity. Qed.

Theorem gen_TimeCompat_Read : forall data prior wt, bytes_ok data -> (Z.of_nat (length data) < 4611686018427387904)%Z ->
  TimeCompatCodec_Read (S (length data)) data prior wt = lift_time (dec (CTime true) data (Z.to_N wt) (tval prior)).
Proof.
  intros data prior wt Hb Hlen. rewrite TimeCompatCodec_Read_unfold. cbn [dec]. unfold go_len.
  destruct data as [|b0 r0] eqn:Ed; [reflexivity|]. rewrite <- Ed in *.
  replace (Z.eqb (Z.of_nat (length data)) 0) with false by (symmetry; apply Z.eqb_neq; rewrite Ed; cbn [length]; lia).
  pose proof (compat_read_loop_equiv data (S (length data)) Hb Hlen ltac:(lia) (S (length data)) 0%Z (mkptime 0%Z 0%Z)) as H.
  cbn [ptime_Seconds ptime_Nanoseconds Z.to_nat skipn Z.to_N] in H.
  rewrite H; [|lia|unfold in32; lia|lia].
  replace (match data with [] => Ok (VTime zero_sec 0, 0) | _ :: _ =>
             do (s, ns, used) <- time_loop true (S (length data)) data 0 0%Z 0%Z; Ok (time_norm s ns, used) end)
    with (do (s, ns, used) <- time_loop true (S (length data)) data 0 0%Z 0%Z; Ok (time_norm s ns, used))
    by (rewrite Ed; reflexivity).
  destruct (time_loop true (S (length data)) data 0 0%Z 0%Z) as [[[s ns] used]| | | |]; reflexivity.
Qed.

(** ** writing: size / append / Size / Append / Omit *)

(** a well-formed time: Unix seconds in int64, nanoseconds within the second *)
Definition time_ok (t : gtime) : Prop := int64_ok (fst t) /\ (0 <= snd t < 1000000000)%Z.

Lemma s2s32_nsec z : (0 <= z < 1000000000)%Z -> s2s 32 z = z.
Proof.
  intros H. unfold s2s, swrap, sbits, ubits. change (2 ^ 32) with 4294967296. change (2 ^ (32 - 1)) with 2147483648.
  change (Z.of_N 4294967296) with 4294967296%Z. rewrite Z.mod_small by lia.
  rewrite N.mod_small by lia. destruct (N.ltb_spec (Z.to_N z) 2147483648); lia.
Qed.

Lemma ptime_Set_ok fuel t : ptime_Set fuel (mkptime 0%Z 0%Z) t = Ok (mkptime (fst t) (s2s 32 (snd t))).
Proof. reflexivity. Qed.

Theorem gen_Time_size : forall t fuel, time_ok t ->
  TimeCodec_size fuel t = Ok (Z.of_N (time_size false (fst t) (snd t))).
Proof.
  intros [s n] fuel [Hs Hn]. cbn [fst snd] in *. unfold TimeCodec_size. rewrite ptime_Set_ok. cbn [bind fst snd ptime_Seconds ptime_Nanoseconds].
  rewrite s2s32_nsec by exact Hn. destruct time_tags as [-> ->].
  rewrite (gen_Int_Size 64 s [8]); [|unfold wbits; auto|unfold in_int; unfold int64_ok, two63Z in Hs; cbn; lia|cbn; lia].
  rewrite (gen_Int_Size 32 n [16]); [|unfold wbits; auto|unfold in_int; cbn; lia|cbn; lia].
  cbn [size]. unfold time_size.
  assert (H1 : size_varint s <= 10).
  { unfold size_varint. rewrite size_append_varuint by (apply zigzag_range; exact Hs). pose proof (append_varuint_length_bounds (zigzag s)). lia. }
  assert (H2 : size_varint n <= 10).
  { assert (Hn64 : int64_ok n) by (unfold int64_ok, two63Z; lia).
    unfold size_varint. rewrite size_append_varuint by (apply zigzag_range; exact Hn64). pose proof (append_varuint_length_bounds (zigzag n)). lia. }
  rewrite sadd64_small by (unfold len; cbn [length]; lia). f_equal. unfold len. cbn [length]. lia.
Qed.

Theorem gen_Time_append : forall t data fuel, time_ok t -> (10 <= fuel)%nat ->
  TimeCodec_append fuel data t = Ok (data ++ time_body false (fst t) (snd t)).
Proof.
  intros [s n] data fuel [Hs Hn] Hf. cbn [fst snd] in *. unfold TimeCodec_append. rewrite ptime_Set_ok. cbn [bind fst snd ptime_Seconds ptime_Nanoseconds].
  rewrite s2s32_nsec by exact Hn. destruct time_tags as [-> ->].
  rewrite (gen_Int_Append 64 s data [8]); [|unfold wbits; auto|unfold in_int; unfold int64_ok, two63Z in Hs; cbn; lia|exact Hf].
  cbn [bind].
  rewrite (gen_Int_Append 32 n _ [16]); [|unfold wbits; auto|unfold in_int; cbn; lia|exact Hf].
  cbn [bind enc]. unfold time_body. rewrite <- !app_assoc. reflexivity.
Qed.

Lemma frame_Size l tag : (0 <= l < 4611686018427387904)%Z -> (Z.of_nat (length tag) < 4294967296)%Z ->
  (if negb (Z.eqb (go_len tag) 0) then Ok (sadd 64 l (sadd 64 (go_len tag) (SizeVarUint (s2u 64 l)))) else Ok l)
  = Ok (Z.of_N (frame_size tag (Z.to_N l))).
Proof.
  intros Hl Ht. unfold frame_size, go_len. destruct tag as [|t tg]; [cbn [length Z.of_nat Z.eqb negb]; f_equal; lia|].
  replace (Z.eqb (Z.of_nat (length (t :: tg))) 0) with false by (symmetry; apply Z.eqb_neq; cbn [length]; lia).
  cbn [negb]. rewrite s2u64_nonneg by lia. rewrite gen_SizeVarUint by (unfold two64; lia).
  assert (H10 : size_varuint (Z.to_N l) <= 10).
  { rewrite size_append_varuint by (unfold two64; lia). pose proof (append_varuint_length_bounds (Z.to_N l)). lia. }
  f_equal. unfold len.
  remember (length (t :: tg)) as lt eqn:Elt. clear Elt. remember (size_varuint (Z.to_N l)) as sv eqn:Esv. clear Esv.
  rewrite (sadd64_small (Z.of_nat lt)) by lia. rewrite sadd64_small by lia. lia.
Qed.

Theorem gen_Time_Size : forall t tag fuel, time_ok t -> (Z.of_nat (length tag) < 4294967296)%Z ->
  TimeCodec_Size fuel t tag = Ok (Z.of_N (size (CTime false) (tval t) tag)).
Proof.
  intros t tag fuel Ht Hl. unfold TimeCodec_Size. rewrite gen_Time_size by exact Ht. cbn [bind].
  destruct t as [s n]. cbn [fst snd tval size] in *.
  destruct Ht as [Hs Hn]. cbn [fst snd] in *.
  destruct (time_size_law false s n) as [Hsz Hb]; [intros _; split; [exact Hs|unfold int64_ok, two63Z; lia]|].
  assert (Hsmall : time_size false s n <= 22).
  { unfold time_size.
    assert (size_varint s <= 10) by (unfold size_varint; rewrite size_append_varuint by (apply zigzag_range; exact Hs); pose proof (append_varuint_length_bounds (zigzag s)); lia).
    assert (int64_ok n) by (unfold int64_ok, two63Z; lia).
    assert (size_varint n <= 10) by (unfold size_varint; rewrite size_append_varuint by (apply zigzag_range; assumption); pose proof (append_varuint_length_bounds (zigzag n)); lia).
    lia. }
  rewrite frame_Size by lia. rewrite N2Z.id. reflexivity.
Qed.

Theorem gen_Time_Append : forall t data tag fuel, time_ok t -> (10 <= fuel)%nat ->
  TimeCodec_Append fuel data t tag = Ok (data ++ enc (CTime false) (tval t) tag).
Proof.
  intros t data tag fuel Ht Hf. unfold TimeCodec_Append.
  destruct t as [s n]. pose proof Ht as [Hs Hn]. cbn [fst snd tval enc] in *.
  destruct (time_size_law false s n) as [Hsz Hb]; [intros _; split; [exact Hs|unfold int64_ok, two63Z; lia]|].
  rewrite (gen_Time_size (s, n) fuel Ht). cbn [bind fst snd].
  unfold frame_tag, go_len. destruct tag as [|t tg].
  - cbn [length Z.of_nat Z.eqb negb]. rewrite (gen_Time_append (s, n)) by assumption. reflexivity.
  - replace (Z.eqb (Z.of_nat (length (t :: tg))) 0) with false by (symmetry; apply Z.eqb_neq; cbn [length]; lia).
    cbn [negb].
    assert (Hsmall : len (time_body false s n) <= 22).
    { rewrite <- Hsz. unfold time_size.
      assert (size_varint s <= 10) by (unfold size_varint; rewrite size_append_varuint by (apply zigzag_range; exact Hs); pose proof (append_varuint_length_bounds (zigzag s)); lia).
      assert (int64_ok n) by (unfold int64_ok, two63Z; lia).
      assert (size_varint n <= 10) by (unfold size_varint; rewrite size_append_varuint by (apply zigzag_range; assumption); pose proof (append_varuint_length_bounds (zigzag n)); lia).
      lia. }
    rewrite s2u64_nonneg by lia. rewrite N2Z.id. rewrite Hsz.
    rewrite gen_AppendVarUint64 by (unfold two64; lia). cbn [bind].
    rewrite (gen_Time_append (s, n)) by assumption. cbn [fst snd]. rewrite <- !app_assoc. reflexivity.
Qed.

Theorem gen_Time_Omit : forall t, TimeCodec_Omit t = omit (CTime false) (tval t) /\ BQTimestampCodec_Omit t = omit CBQ (tval t).
Proof. intros [s n]. split; reflexivity. Qed.

(** *** TimeCompatCodec *)
Lemma ubits64_u64 z : ubits 64 z = u64 z.
Proof. reflexivity. Qed.
Lemma u64_of_N u : u < two64 -> u64 (Z.of_N u) = u.
Proof. intros H. unfold u64, two64Z. unfold two64 in H. rewrite Z.mod_small by lia. apply N2Z.id. Qed.
Lemma ubits32_lt z : ubits 32 z < 4294967296.
Proof. unfold ubits. change (Z.of_N (2 ^ 32)) with 4294967296%Z. pose proof (Z.mod_pos_bound z 4294967296 ltac:(lia)). lia. Qed.

Theorem gen_TimeCompat_size : forall t fuel, time_ok t ->
  TimeCompatCodec_size fuel t = Ok (Z.of_N (time_size true (fst t) (snd t))).
Proof.
  intros [s n] fuel [Hs Hn]. cbn [fst snd] in *. unfold TimeCompatCodec_size. rewrite ptime_Set_ok. cbn [bind fst snd ptime_Seconds ptime_Nanoseconds].
  rewrite s2s32_nsec by exact Hn. destruct time_tags as [-> ->]. unfold s2u. rewrite ubits64_u64.
  pose proof (u64_lt s) as Hu. pose proof (ubits32_lt n) as Hb32.
  rewrite (gen_Uint_Size 64 (u64 s) [8]); [|unfold wbits; auto|unfold in_uint; exact Hu|cbn; lia].
  rewrite (gen_Uint_Size 32 (ubits 32 n) [16]); [|unfold wbits; auto|unfold in_uint; exact Hb32|cbn; lia].
  cbn [size]. unfold time_size. rewrite !u64_of_N by (unfold two64 in *; lia).
  assert (H1 : size_varuint (u64 s) <= 10) by (rewrite size_append_varuint by exact Hu; pose proof (append_varuint_length_bounds (u64 s)); lia).
  assert (H2 : size_varuint (ubits 32 n) <= 10) by (rewrite size_append_varuint by (unfold two64; lia); pose proof (append_varuint_length_bounds (ubits 32 n)); lia).
  rewrite sadd64_small by (unfold len; cbn [length]; lia). f_equal. unfold len. cbn [length]. lia.
Qed.

Theorem gen_TimeCompat_append : forall t data fuel, time_ok t -> (10 <= fuel)%nat ->
  TimeCompatCodec_append fuel data t = Ok (data ++ time_body true (fst t) (snd t)).
Proof.
  intros [s n] data fuel [Hs Hn] Hf. cbn [fst snd] in *. unfold TimeCompatCodec_append. rewrite ptime_Set_ok. cbn [bind fst snd ptime_Seconds ptime_Nanoseconds].
  rewrite s2s32_nsec by exact Hn. destruct time_tags as [-> ->]. unfold s2u. rewrite ubits64_u64.
  pose proof (u64_lt s) as Hu. pose proof (ubits32_lt n) as Hb32.
  rewrite (gen_Uint_Append 64 (u64 s) data [8]); [|unfold wbits; auto|unfold in_uint; exact Hu|exact Hf].
  cbn [bind].
  rewrite (gen_Uint_Append 32 (ubits 32 n) _ [16]); [|unfold wbits; auto|unfold in_uint; exact Hb32|exact Hf].
  cbn [bind enc]. rewrite !u64_of_N by (unfold two64 in *; lia). unfold time_body. rewrite <- !app_assoc. reflexivity.
Qed.

Lemma compat_size_small s n : time_size true s n <= 22.
Proof.
  unfold time_size.
  assert (size_varuint (u64 s) <= 10) by (rewrite size_append_varuint by apply u64_lt; pose proof (append_varuint_length_bounds (u64 s)); lia).
  pose proof (ubits32_lt n).
  assert (size_varuint (ubits 32 n) <= 10) by (rewrite size_append_varuint by (unfold two64; lia); pose proof (append_varuint_length_bounds (ubits 32 n)); lia).
  lia.
Qed.

Theorem gen_TimeCompat_Size : forall t tag fuel, time_ok t -> (Z.of_nat (length tag) < 4294967296)%Z ->
  TimeCompatCodec_Size fuel t tag = Ok (Z.of_N (size (CTime true) (tval t) tag)).
Proof.
  intros t tag fuel Ht Hl. unfold TimeCompatCodec_Size. rewrite gen_TimeCompat_size by exact Ht. cbn [bind].
  destruct t as [s n]. cbn [fst snd tval size] in *.
  pose proof (compat_size_small s n).
  rewrite frame_Size by lia. rewrite N2Z.id. reflexivity.
Qed.

Theorem gen_TimeCompat_Append : forall t data tag fuel, time_ok t -> (10 <= fuel)%nat ->
  TimeCompatCodec_Append fuel data t tag = Ok (data ++ enc (CTime true) (tval t) tag).
Proof.
  intros t data tag fuel Ht Hf. unfold TimeCompatCodec_Append.
  destruct t as [s n]. cbn [fst snd tval enc] in *.
  destruct (time_size_law true s n) as [Hsz Hb]; [discriminate|].
  rewrite (gen_TimeCompat_size (s, n) fuel Ht). cbn [bind fst snd].
  unfold frame_tag, go_len. destruct tag as [|t tg].
  - cbn [length Z.of_nat Z.eqb negb]. rewrite (gen_TimeCompat_append (s, n)) by assumption. reflexivity.
  - replace (Z.eqb (Z.of_nat (length (t :: tg))) 0) with false by (symmetry; apply Z.eqb_neq; cbn [length]; lia).
    cbn [negb]. pose proof (compat_size_small s n).
    rewrite s2u64_nonneg by lia. rewrite N2Z.id. rewrite Hsz.
    rewrite gen_AppendVarUint64 by (unfold two64; lia). cbn [bind].
    rewrite (gen_TimeCompat_append (s, n)) by assumption. cbn [fst snd]. rewrite <- !app_assoc. reflexivity.
Qed.

(** *** BQTimestampCodec: microseconds since the epoch as a plain varint *)
Lemma s2u_s2s_64 z : s2u 64 (s2s 64 z) = u64 z.
Proof.
  unfold s2u, s2s. destruct (swrap64_congr z) as [k Hk]. rewrite Hk. unfold ubits, u64, two64Z.
  change (Z.of_N (2 ^ 64)) with 18446744073709551616%Z. rewrite Z.mod_add by lia. reflexivity.
Qed.

Theorem gen_BQ_Size : forall t tag, (Z.of_nat (length tag) < 4611686018427387904)%Z ->
  BQTimestampCodec_Size t tag = Z.of_N (size CBQ (tval t) tag).
Proof.
  intros [s n] tag Hl. unfold BQTimestampCodec_Size, go_time_UnixMicro_. cbn [fst snd tval size]. rewrite s2u_s2s_64.
  rewrite (gen_Uint_Size 64 (u64 (unix_micro s n)) tag); [|unfold wbits; auto|unfold in_uint; apply u64_lt|exact Hl].
  cbn [size]. rewrite u64_of_N by apply u64_lt. reflexivity.
Qed.

Theorem gen_BQ_Append : forall t data tag fuel, (10 <= fuel)%nat ->
  BQTimestampCodec_Append fuel data t tag = Ok (data ++ enc CBQ (tval t) tag).
Proof.
  intros [s n] data tag fuel Hf. unfold BQTimestampCodec_Append, go_time_UnixMicro_. cbn [fst snd tval enc]. rewrite s2u_s2s_64.
  rewrite (gen_Uint_Append 64 (u64 (unix_micro s n)) data tag); [|unfold wbits; auto|unfold in_uint; apply u64_lt|exact Hf].
  cbn [bind enc]. rewrite u64_of_N by apply u64_lt. reflexivity.
Qed.

Theorem gen_BQ_Read : forall data prior wt fuel,
  BQTimestampCodec_Read fuel data prior wt = lift_time (dec CBQ data (Z.to_N wt) (tval prior)).
Proof.
  intros data prior wt fuel. unfold BQTimestampCodec_Read. cbn [dec]. unfold read_scalar_varuint.
  rewrite uint_read by (unfold wbits; auto).
  destruct (read_varuint data) as [u k] eqn:E. pose proof (read_varuint_n data u k E).
  destruct (Z.ltb k 0) eqn:Ek; [reflexivity|]. apply Z.ltb_ge in Ek. cbn [bind]. rewrite u2s64_mod.
  cbn [lift_time time_norm]. unfold go_time_UnixMicro, go_time_Unix. f_equal. f_equal. lia.
Qed.

(** ** the codec laws on the code as translated *)
Theorem code_Time_size_law : forall t tag fuel, time_ok t -> (10 <= fuel)%nat -> (Z.of_nat (length tag) < 4294967296)%Z ->
  exists out, TimeCodec_Append fuel [] t tag = Ok out /\ TimeCodec_Size fuel t tag = Ok (Z.of_nat (length out)).
Proof.
  intros t tag fuel Ht Hf Hl. rewrite gen_Time_Append, gen_Time_Size by assumption. eexists. split; [reflexivity|].
  f_equal. cbn [app]. rewrite size_law; [unfold len; lia|].
  destruct t as [s n]. destruct Ht as [Hs Hn]. cbn [tval fits fst snd] in *. intros _. split; [exact Hs|unfold int64_ok, two63Z; lia].
Qed.

Theorem code_TimeCompat_size_law : forall t tag fuel, time_ok t -> (10 <= fuel)%nat -> (Z.of_nat (length tag) < 4294967296)%Z ->
  exists out, TimeCompatCodec_Append fuel [] t tag = Ok out /\ TimeCompatCodec_Size fuel t tag = Ok (Z.of_nat (length out)).
Proof.
  intros t tag fuel Ht Hf Hl. rewrite gen_TimeCompat_Append, gen_TimeCompat_Size by assumption. eexists. split; [reflexivity|].
  f_equal. cbn [app]. rewrite size_law; [unfold len; lia|].
  destruct t as [s n]. cbn [tval fits]. discriminate.
Qed.

(** non-vacuity: the translated code on concrete times (2021-03-04T05:06:07.000000089Z; half a second before the epoch) *)
Example gen_time_ex :
  TimeCodec_Append 20 [] (1614834367, 89)%Z [26] = Ok [26; 9; 8; 254; 170; 131; 132; 12; 16; 178; 1]
  /\ TimeCodec_Read 10 [8; 254; 170; 131; 132; 12; 16; 178; 1] go_time_zero 2 = Ok ((1614834367, 89)%Z, 9%Z)
  /\ TimeCompatCodec_Append 20 [] (-1, 500000000)%Z [] = Ok [8; 255; 255; 255; 255; 255; 255; 255; 255; 255; 1; 16; 128; 202; 181; 238; 1]
  /\ TimeCompatCodec_Read 18 [8; 255; 255; 255; 255; 255; 255; 255; 255; 255; 1; 16; 128; 202; 181; 238; 1] go_time_zero 2 = Ok ((-1, 500000000)%Z, 17%Z)
  /\ BQTimestampCodec_Read 5 [192; 132; 61] go_time_zero 0 = Ok ((1, 0)%Z, 3%Z).
Proof. vm_compute. repeat split; reflexivity. Qed.
