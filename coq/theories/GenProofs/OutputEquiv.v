(** C15, tie by translation for the string escaper: [PlencGen.GenOutput] is
    generated from /repo/plenccodec/output.go (method appendString) by
    tools/gotrans on every run; for ALL byte strings the translated function
    writes exactly the model's [append_string] (Output.v) - the function the
    theorems C15_escape / C15_output_is_json are about. *)
From Plenc Require Import Base Varint GoSem Output OutputProofs.
From PlencGen Require Import GenOutput.
Open Scope N_scope.
Ltac Zify.zify_post_hook ::= Z.div_mod_to_equations.

Lemma swrap64_small' z : (- 9223372036854775808 <= z < 9223372036854775808)%Z -> swrap 64 z = z.
Proof.
  intros H. unfold swrap, sbits, ubits. change (2 ^ 64) with 18446744073709551616. change (2 ^ (64 - 1)) with 9223372036854775808.
  change (Z.of_N 18446744073709551616) with 18446744073709551616%Z.
  destruct (_ <? _)%N eqn:E; [apply N.ltb_lt in E|apply N.ltb_ge in E]; lia.
Qed.

Lemma hex_digit_sweep : forallb (fun k => nth (N.to_nat k) [48; 49; 50; 51; 52; 53; 54; 55; 56; 57; 97; 98; 99; 100; 101; 102] 0 =? hexdigit k)
                                (map N.of_nat (seq 0 16)) = true.
Proof. vm_compute. reflexivity. Qed.
Lemma hex_digit k : k < 16 ->
  go_index "" [48; 49; 50; 51; 52; 53; 54; 55; 56; 57; 97; 98; 99; 100; 101; 102] (Z.of_N k) = Ok (hexdigit k)
  /\ forall site, go_index site [48; 49; 50; 51; 52; 53; 54; 55; 56; 57; 97; 98; 99; 100; 101; 102] (Z.of_N k) = Ok (hexdigit k).
Proof.
  intros Hk.
  assert (G : forall site, go_index site [48; 49; 50; 51; 52; 53; 54; 55; 56; 57; 97; 98; 99; 100; 101; 102] (Z.of_N k) = Ok (hexdigit k)).
  { intros site. unfold go_index, go_len. cbn [length].
    replace ((Z.of_N k <? 0) || (Z.of_nat 16 <=? Z.of_N k))%Z with false
      by (symmetry; apply orb_false_iff; split; [apply Z.ltb_ge|apply Z.leb_gt]; lia).
    f_equal. pose proof hex_digit_sweep as H. rewrite forallb_forall in H. specialize (H k).
    rewrite N.eqb_eq in H. replace (Z.to_nat (Z.of_N k)) with (N.to_nat k) by lia. apply H.
    apply in_map_iff. exists (N.to_nat k). split; [lia|]. apply in_seq. lia. }
  split; [apply G|exact G].
Qed.

Definition esc_loop (v : bytes) :=
  fix loop1 (fuel' : nat) (data : bytes) (i : Z) {struct fuel'} : res (lout bytes (bytes * Z)) :=
    match fuel' with
    | O => Hang "appendString.loop1"
    | S fuel' =>
      if Z.ltb i (go_len v) then
        do ix_1 <- go_index "appendString.ix_1" v i;
        let c := ix_1 in
        if (N.eqb c 92) || (N.eqb c 34) then
          let data := data ++ [92; c] in let i := sadd 64 i 1 in loop1 fuel' data i
        else if N.eqb c 10 then
          let data := data ++ [92; 110] in let i := sadd 64 i 1 in loop1 fuel' data i
        else if N.eqb c 13 then
          let data := data ++ [92; 114] in let i := sadd 64 i 1 in loop1 fuel' data i
        else if N.eqb c 9 then
          let data := data ++ [92; 116] in let i := sadd 64 i 1 in loop1 fuel' data i
        else if N.ltb c 32 then
          do ix_2 <- go_index "appendString.ix_2" [48; 49; 50; 51; 52; 53; 54; 55; 56; 57; 97; 98; 99; 100; 101; 102] (Z.of_N (ushr c 4));
          do ix_3 <- go_index "appendString.ix_3" [48; 49; 50; 51; 52; 53; 54; 55; 56; 57; 97; 98; 99; 100; 101; 102] (Z.of_N (N.land c 15));
          let data := data ++ [92; 117; 48; 48; ix_2; ix_3] in let i := sadd 64 i 1 in loop1 fuel' data i
        else
          let data := data ++ [c] in let i := sadd 64 i 1 in loop1 fuel' data i
      else Ok (LDone (data, i))
    end.

Lemma esc_loop_spec : forall v, (Z.of_nat (length v) < 4611686018427387904)%Z ->
  forall f (i : nat) data, (i <= length v)%nat -> (length v - i < f)%nat ->
  esc_loop v f data (Z.of_nat i) = Ok (LDone (data ++ flat_map escape_byte (skipn i v), Z.of_nat (length v))).
Proof.
  intros v Hlen. induction f as [|f IH]; intros i data Hi Hf; [lia|].
  cbn [esc_loop]. unfold go_len.
  destruct (Z.ltb (Z.of_nat i) (Z.of_nat (length v))) eqn:Ei.
  2:{ apply Z.ltb_ge in Ei. assert (i = length v) by lia. subst i. rewrite skipn_all. cbn [flat_map]. rewrite app_nil_r. reflexivity. }
  apply Z.ltb_lt in Ei.
  assert (Hsk : skipn i v = nth i v 0 :: skipn (S i) v).
  { clear -Ei. revert i Ei. induction v as [|x v IHv]; intros i Ei; cbn [length] in Ei; [lia|].
    destruct i; [reflexivity|]. cbn [skipn nth]. apply IHv. lia. }
  unfold go_index at 1, go_len.
  replace ((Z.of_nat i <? 0) || (Z.of_nat (length v) <=? Z.of_nat i))%Z with false
    by (symmetry; apply orb_false_iff; split; [apply Z.ltb_ge|apply Z.leb_gt]; lia).
  cbn [bind]. rewrite Nat2Z.id. set (c := nth i v 0) in *.
  rewrite Hsk. cbn [flat_map]. unfold escape_byte.
  assert (Hs : sadd 64 (Z.of_nat i) 1 = Z.of_nat (S i)) by (unfold sadd; rewrite swrap64_small' by lia; lia).
  rewrite Hs.
  destruct ((c =? 92) || (c =? 34)) eqn:E1.
  { rewrite IH by lia. rewrite <- app_assoc. reflexivity. }
  destruct (c =? 10) eqn:E2.
  { rewrite IH by lia. rewrite <- app_assoc. reflexivity. }
  destruct (c =? 13) eqn:E3.
  { rewrite IH by lia. rewrite <- app_assoc. reflexivity. }
  destruct (c =? 9) eqn:E4.
  { rewrite IH by lia. rewrite <- app_assoc. reflexivity. }
  destruct (c <? 32) eqn:E5.
  { apply N.ltb_lt in E5.
    assert (H1 : ushr c 4 = c / 16) by (unfold ushr; rewrite N.shiftr_div_pow2; reflexivity).
    assert (H2 : N.land c 15 = c mod 16) by (change 15 with (N.ones 4); rewrite N.land_ones; reflexivity).
    rewrite H1, H2.
    rewrite (proj2 (hex_digit (c / 16) ltac:(apply N.div_lt_upper_bound; lia))).
    rewrite (proj2 (hex_digit (c mod 16) ltac:(apply N.mod_lt; lia))). cbn [bind].
    rewrite IH by lia. rewrite <- app_assoc. reflexivity. }
  rewrite IH by lia. rewrite <- app_assoc. reflexivity.
Qed.

Theorem gen_appendString : forall v data fuel, (Z.of_nat (length v) < 4611686018427387904)%Z -> (length v < fuel)%nat ->
  JSONOutput_appendString fuel data v = Ok (data ++ append_string v).
Proof.
  intros v data fuel Hlen Hf. unfold JSONOutput_appendString.
  change ((do lr <- esc_loop v fuel (data ++ [34]) (Z.of_nat 0);
           match lr with LRet r => Ok r | LDone (data0, _) => Ok (data0 ++ [34]) end) = Ok (data ++ append_string v)).
  rewrite (esc_loop_spec v Hlen fuel 0 (data ++ [34]) ltac:(lia) ltac:(lia)). cbn [bind skipn].
  unfold append_string. rewrite <- !app_assoc. reflexivity.
Qed.

(** ** the separator / indentation state machine (every method of JSONOutput
    that does not go through strconv / time: prefix, end, punctuate, StartObject,
    EndObject, StartArray, EndArray, NameField, String, Raw, Reset, Done) *)

Definition code (s : ostate) : Z := match s with SValue => 0 | SKey => 1 | SObjValue => 2 end.

(** the translated record and the model's state describe the same outputter.
    The model keeps the stack top first, the code appends at the end. *)
Definition R (g : JSONOutput) (m : jout) : Prop :=
  JSONOutput_data g = o_data m /\ JSONOutput_depth g = Z.of_nat (o_depth m) /\ JSONOutput_inField g = o_infield m
  /\ map stackEntry_state (JSONOutput_stack g) = rev (map code (o_stack m)).

(** sizes within Go's int (no arithmetic wraps) *)
Definition small (m : jout) : Prop :=
  (Z.of_nat (o_depth m) < 4611686018427387904 /\ Z.of_nat (length (o_stack m)) < 4611686018427387904
   /\ Z.of_nat (length (o_data m)) < 4611686018427387904)%Z.

Lemma indent_snoc d : indent d ++ [32; 32] = indent (S d).
Proof.
  unfold indent. induction d as [|d IH]; [reflexivity|].
  cbn [repeat concat]. cbn [repeat concat] in IH. rewrite <- app_assoc. rewrite IH. reflexivity.
Qed.

Definition prefix_loop :=
  fix loop1 (fuel' : nat) (i : Z) (j : JSONOutput) {struct fuel'} : res (lout JSONOutput (Z * JSONOutput)) :=
    match fuel' with
    | O => Hang "prefix.loop1"
    | S fuel' =>
      if Z.ltb i (JSONOutput_depth j) then
        let j := set_JSONOutput_data j (JSONOutput_data j ++ [32; 32]) in
        let i := sadd 64 i 1 in loop1 fuel' i j
      else Ok (LDone (i, j))
    end.

Lemma prefix_loop_spec : forall inf st (dep : nat), (Z.of_nat dep < 4611686018427387904)%Z ->
  forall f (i : nat) data, (i <= dep)%nat -> (dep - i < f)%nat ->
  prefix_loop f (Z.of_nat i) (mkJSONOutput data (Z.of_nat dep) inf st)
  = Ok (LDone (Z.of_nat dep, mkJSONOutput (data ++ indent (dep - i)) (Z.of_nat dep) inf st)).
Proof.
  intros inf st dep Hdep. induction f as [|f IH]; intros i data Hi Hf; [lia|].
  cbn [prefix_loop JSONOutput_depth JSONOutput_data set_JSONOutput_data JSONOutput_inField JSONOutput_stack].
  destruct (Z.ltb (Z.of_nat i) (Z.of_nat dep)) eqn:E.
  - apply Z.ltb_lt in E.
    assert (Hs : sadd 64 (Z.of_nat i) 1 = Z.of_nat (S i)) by (unfold sadd; rewrite swrap64_small' by lia; lia).
    rewrite Hs. fold prefix_loop. unfold set_JSONOutput_data. cbn [JSONOutput_depth JSONOutput_data JSONOutput_inField JSONOutput_stack].
    rewrite IH by lia. do 3 f_equal. rewrite <- app_assoc. f_equal.
    replace (dep - i)%nat with (S (dep - S i)) by lia. reflexivity.
  - apply Z.ltb_ge in E. assert (i = dep) by lia. subst i. rewrite Nat.sub_diag. cbn [indent repeat concat]. rewrite app_nil_r. reflexivity.
Qed.

Lemma gen_prefix : forall g m fuel, R g m -> small m -> (o_depth m < fuel)%nat ->
  exists g', JSONOutput_prefix fuel g = Ok g' /\ R g' (o_prefix m).
Proof.
  intros [d dep inf st] [md mdep minf mst] fuel (Hd & Hdep & Hinf & Hst) (Hs1 & _) Hf.
  cbn [JSONOutput_data JSONOutput_depth JSONOutput_inField JSONOutput_stack o_data o_depth o_infield o_stack] in *. subst d dep inf.
  unfold JSONOutput_prefix, o_prefix. cbn [JSONOutput_inField o_infield o_data o_depth o_stack].
  destruct minf.
  - eexists. split; [reflexivity|]. repeat split; cbn; auto.
  - change ((do lr <- prefix_loop fuel (Z.of_nat 0) (mkJSONOutput md (Z.of_nat mdep) false st);
             match lr with LRet v => Ok v | LDone (_, j) => Ok j end) = _) || idtac.
    eexists. split.
    + change (fix loop1 (fuel' : nat) (i : Z) (j : JSONOutput) {struct fuel'} : res (lout JSONOutput (Z * JSONOutput)) := _) with prefix_loop || idtac.
      cbv zeta.
      change 0%Z with (Z.of_nat 0).
      match goal with |- context [(fix loop1 (fuel' : nat) (i : Z) (j : JSONOutput) {struct fuel'} := _) fuel (Z.of_nat 0) ?x] =>
        change ((fix loop1 (fuel' : nat) (i : Z) (j : JSONOutput) {struct fuel'} : res (lout JSONOutput (Z * JSONOutput)) := _) fuel (Z.of_nat 0) x)
          with (prefix_loop fuel (Z.of_nat 0) x) end || idtac.
      fold prefix_loop.
      rewrite (prefix_loop_spec false st mdep Hs1 fuel 0 md ltac:(lia) ltac:(lia)). cbn [bind]. reflexivity.
    + rewrite Nat.sub_0_r. repeat split; cbn; auto.
Qed.

Lemma map_snoc_inv {A B} (f : A -> B) : forall l a b, map f l = a ++ [b] ->
  exists l' x, l = l' ++ [x] /\ map f l' = a /\ f x = b.
Proof.
  intros l a b H. destruct (rev l) as [|x r] eqn:E.
  - apply (f_equal (@rev A)) in E. rewrite rev_involutive in E. subst l. destruct a; discriminate H.
  - apply (f_equal (@rev A)) in E. rewrite rev_involutive in E. cbn [rev] in E. subst l.
    rewrite map_app in H. cbn [map] in H. apply app_inj_tail in H. destruct H as [H1 H2].
    exists (rev r), x. auto.
Qed.

Lemma go_nth_last {A} site (l : list A) x : (Z.of_nat (length l) < 4611686018427387904)%Z ->
  go_nth site (l ++ [x]) (ssub 64 (go_len (l ++ [x])) 1) = Ok x.
Proof.
  intros Hl. unfold go_nth, go_len, ssub. rewrite app_length. cbn [length].
  rewrite swrap64_small' by lia.
  replace ((Z.of_nat (length l + 1) - 1 <? 0) || (Z.of_nat (length l + 1) <=? Z.of_nat (length l + 1) - 1))%Z with false
    by (symmetry; apply orb_false_iff; split; [apply Z.ltb_ge|apply Z.leb_gt]; lia).
  replace (Z.to_nat (Z.of_nat (length l + 1) - 1)) with (length l) by lia.
  rewrite nth_error_app2 by lia. rewrite Nat.sub_diag. reflexivity.
Qed.
Lemma go_set_nth_last {A} site (l : list A) x y : (Z.of_nat (length l) < 4611686018427387904)%Z ->
  go_set_nth site (l ++ [x]) (ssub 64 (go_len (l ++ [x])) 1) y = Ok (l ++ [y]).
Proof.
  intros Hl. unfold go_set_nth, go_len, ssub. rewrite app_length. cbn [length].
  rewrite swrap64_small' by lia.
  replace ((Z.of_nat (length l + 1) - 1 <? 0) || (Z.of_nat (length l + 1) <=? Z.of_nat (length l + 1) - 1))%Z with false
    by (symmetry; apply orb_false_iff; split; [apply Z.ltb_ge|apply Z.leb_gt]; lia).
  replace (Z.to_nat (Z.of_nat (length l + 1) - 1)) with (length l) by lia.
  rewrite firstn_app, firstn_all, Nat.sub_diag. cbn [firstn]. rewrite app_nil_r.
  rewrite skipn_all2 by (rewrite app_length; cbn [length]; lia). reflexivity.
Qed.

Lemma gen_punct : forall g m fuel, R g m -> small m ->
  exists g', JSONOutput_punctuate fuel g = Ok g' /\ R g' (o_punct m).
Proof.
  intros [d dep inf st] [md mdep minf mst] fuel (Hd & Hdep & Hinf & Hst) (_ & Hs2 & _).
  cbn [JSONOutput_data JSONOutput_depth JSONOutput_inField JSONOutput_stack o_data o_depth o_infield o_stack] in *. subst d dep inf.
  unfold JSONOutput_punctuate, o_punct. cbn [JSONOutput_stack o_stack].
  destruct mst as [|s r].
  - destruct st; [|discriminate Hst]. cbn [go_len length Z.eqb Z.of_nat]. eexists. split; [reflexivity|]. repeat split; auto.
  - cbn [map rev] in Hst. apply map_snoc_inv in Hst. destruct Hst as (st' & x & -> & Hst' & Hx).
    assert (Hlen : (Z.of_nat (length st') < 4611686018427387904)%Z).
    { apply (f_equal (@length Z)) in Hst'. rewrite map_length, rev_length, map_length in Hst'. cbn [length] in Hs2. lia. }
    replace (Z.eqb (go_len (st' ++ [x])) 0) with false
      by (symmetry; apply Z.eqb_neq; unfold go_len; rewrite app_length; cbn [length]; lia).
    cbv zeta. rewrite !(go_nth_last _ st' x Hlen). cbn [bind].
    destruct x as [xs]. cbn [stackEntry_state] in Hx. subst xs.
    destruct s; cbn [code Z.eqb Pos.eqb stackEntry_state];
      cbn [set_JSONOutput_data set_JSONOutput_stack JSONOutput_data JSONOutput_depth JSONOutput_inField JSONOutput_stack];
      rewrite ?(go_nth_last _ st' _ Hlen); cbn [bind]; rewrite ?(go_set_nth_last _ st' _ _ Hlen); cbn [bind];
      (eexists; split; [reflexivity|]); unfold R;
      cbn [JSONOutput_data JSONOutput_depth JSONOutput_inField JSONOutput_stack o_data o_depth o_infield o_stack set_stackEntry_state];
      (split; [reflexivity|]); (split; [reflexivity|]); (split; [reflexivity|]);
      unfold set_JSONOutput_stack, set_JSONOutput_data, set_stackEntry_state; cbn [JSONOutput_data JSONOutput_depth JSONOutput_inField JSONOutput_stack];
      cbn [map rev code]; rewrite map_app, Hst'; reflexivity.
Qed.

Lemma two_last {A} : forall (l : list A), (2 <= length l)%nat -> exists l0 a b, l = l0 ++ [a; b].
Proof.
  intros l H. destruct (rev l) as [|b [|a r]] eqn:E.
  - apply (f_equal (@length A)) in E. rewrite rev_length in E. cbn in E. lia.
  - apply (f_equal (@length A)) in E. rewrite rev_length in E. cbn in E. lia.
  - apply (f_equal (@rev A)) in E. rewrite rev_involutive in E. cbn [rev] in E. subst l.
    exists (rev r), a, b. rewrite <- app_assoc. reflexivity.
Qed.

Lemma trim_two d0 a b : trim (d0 ++ [a; b]) = if (a =? 44) && (b =? 10) then d0 ++ [10] else d0 ++ [a; b].
Proof.
  unfold trim. rewrite rev_app_distr. cbn [rev app].
  destruct (a =? 44) eqn:Ea; destruct (b =? 10) eqn:Eb; cbn [andb];
    try (apply N.eqb_eq in Ea; subst a); try (apply N.eqb_eq in Eb; subst b).
  - cbn [rev]. rewrite rev_involutive. reflexivity.
  - apply N.eqb_neq in Eb. destruct b as [|p]; [reflexivity|]. destruct p as [p|p|]; try reflexivity.
    destruct p as [p|p|]; try reflexivity. destruct p as [p|p|]; try reflexivity. destruct p as [p|p|]; try reflexivity. congruence.
  - apply N.eqb_neq in Ea.
    assert (forall r, match a :: r with 44 :: r0 => rev (10 :: r0) | _ => d0 ++ [a; 10] end = d0 ++ [a; 10]) as H.
    { intros r. destruct a as [|p]; [reflexivity|]. do 6 (destruct p as [p|p|]; try reflexivity). congruence. }
    apply H.
  - apply N.eqb_neq in Eb. destruct b as [|p]; [reflexivity|]. destruct p as [p|p|]; try reflexivity.
    destruct p as [p|p|]; try reflexivity. destruct p as [p|p|]; try reflexivity. destruct p as [p|p|]; try reflexivity. congruence.
Qed.

Lemma gen_end : forall g m fuel, R g m -> small m ->
  match o_end m with
  | Ok m' => exists g', JSONOutput_end fuel g = Ok g' /\ R g' m'
  | Panic _ => exists s, JSONOutput_end fuel g = Panic s
  | _ => False
  end.
Proof.
  intros [d dep inf st] [md mdep minf mst] fuel (Hd & Hdep & Hinf & Hst) (Hs1 & Hs2 & Hs3).
  cbn [JSONOutput_data JSONOutput_depth JSONOutput_inField JSONOutput_stack o_data o_depth o_infield o_stack] in *. subst d dep inf.
  unfold JSONOutput_end, o_end. cbn [JSONOutput_depth o_depth o_stack o_data o_infield].
  destruct mdep as [|dd].
  - cbn [Z.of_nat Z.eqb]. eexists. split; [reflexivity|]. repeat split; cbn; auto.
  - replace (Z.eqb (Z.of_nat (S dd)) 0) with false by (symmetry; apply Z.eqb_neq; lia).
    unfold set_JSONOutput_depth. cbn [JSONOutput_data JSONOutput_depth JSONOutput_inField JSONOutput_stack].
    assert (Hdep : ssub 64 (Z.of_nat (S dd)) 1 = Z.of_nat dd) by (unfold ssub; rewrite swrap64_small' by lia; lia).
    rewrite Hdep.
    destruct mst as [|s r].
    + destruct st; [|discriminate Hst]. unfold go_slice_to, go_len, ssub. cbn [length Z.of_nat]. rewrite swrap64_small' by lia.
      cbn. eexists. reflexivity.
    + cbn [map rev] in Hst. apply map_snoc_inv in Hst. destruct Hst as (st' & x & -> & Hst' & Hx).
      assert (Hlen : (Z.of_nat (length st') < 4611686018427387904)%Z).
      { apply (f_equal (@length Z)) in Hst'. rewrite map_length, rev_length, map_length in Hst'. cbn [length] in Hs2. lia. }
      assert (Hpop : go_slice_to "end.st_1" (st' ++ [x]) (ssub 64 (go_len (st' ++ [x])) 1) = Ok st').
      { unfold go_slice_to, go_len, ssub. rewrite app_length. cbn [length]. rewrite swrap64_small' by lia.
        replace ((Z.of_nat (length st' + 1) - 1 <? 0) || (Z.of_nat (length st' + 1) <? Z.of_nat (length st' + 1) - 1))%Z with false
          by (symmetry; apply orb_false_iff; split; apply Z.ltb_ge; lia).
        replace (Z.to_nat (Z.of_nat (length st' + 1) - 1)) with (length st') by lia.
        rewrite firstn_app, firstn_all, Nat.sub_diag. cbn [firstn]. rewrite app_nil_r. reflexivity. }
      rewrite Hpop. cbn [bind]. unfold set_JSONOutput_stack. cbn [JSONOutput_data JSONOutput_depth JSONOutput_inField JSONOutput_stack].
      cbv zeta. unfold go_len at 1.
      destruct (Nat.ltb (length md) 2) eqn:El2.
      * apply Nat.ltb_lt in El2. replace (Z.ltb (Z.of_nat (length md)) 2) with true by (symmetry; apply Z.ltb_lt; lia).
        eexists. split; [reflexivity|]. repeat split; cbn; auto.
      * apply Nat.ltb_ge in El2. replace (Z.ltb (Z.of_nat (length md)) 2) with false by (symmetry; apply Z.ltb_ge; lia).
        destruct (two_last md El2) as (d0 & a & b & ->). rewrite trim_two.
        rewrite app_length in Hs3. cbn [length] in Hs3.
        assert (L2 : ssub 64 (go_len (d0 ++ [a; b])) 2 = Z.of_nat (length d0)).
        { unfold ssub, go_len. rewrite app_length. cbn [length]. rewrite swrap64_small' by lia. lia. }
        assert (L1 : ssub 64 (go_len (d0 ++ [a; b])) 1 = Z.of_nat (S (length d0))).
        { unfold ssub, go_len. rewrite app_length. cbn [length]. rewrite swrap64_small' by lia. lia. }
        fold (go_len (d0 ++ [a; b])). rewrite L2, L1.
        assert (I2 : forall site, go_index site (d0 ++ [a; b]) (Z.of_nat (length d0)) = Ok a).
        { intros site. unfold go_index, go_len. rewrite app_length. cbn [length].
          replace ((Z.of_nat (length d0) <? 0) || (Z.of_nat (length d0 + 2) <=? Z.of_nat (length d0)))%Z with false
            by (symmetry; apply orb_false_iff; split; [apply Z.ltb_ge|apply Z.leb_gt]; lia).
          rewrite Nat2Z.id. rewrite app_nth2 by lia. rewrite Nat.sub_diag. reflexivity. }
        assert (I1 : forall site, go_index site (d0 ++ [a; b]) (Z.of_nat (S (length d0))) = Ok b).
        { intros site. unfold go_index, go_len. rewrite app_length. cbn [length].
          replace ((Z.of_nat (S (length d0)) <? 0) || (Z.of_nat (length d0 + 2) <=? Z.of_nat (S (length d0))))%Z with false
            by (symmetry; apply orb_false_iff; split; [apply Z.ltb_ge|apply Z.leb_gt]; lia).
          rewrite Nat2Z.id. rewrite app_nth2 by lia. replace (S (length d0) - length d0)%nat with 1%nat by lia. reflexivity. }
        rewrite I2. cbn [bind].
        destruct (a =? 44) eqn:Ea.
        -- rewrite I1. cbn [bind]. destruct (b =? 10) eqn:Eb; cbn [andb].
           ++ assert (S1 : forall site, go_set_nth site (d0 ++ [a; b]) (Z.of_nat (length d0)) 10 = Ok (d0 ++ [10; b])).
              { intros site. unfold go_set_nth, go_len. rewrite app_length. cbn [length].
                replace ((Z.of_nat (length d0) <? 0) || (Z.of_nat (length d0 + 2) <=? Z.of_nat (length d0)))%Z with false
                  by (symmetry; apply orb_false_iff; split; [apply Z.ltb_ge|apply Z.leb_gt]; lia).
                rewrite Nat2Z.id. rewrite firstn_app, firstn_all, Nat.sub_diag. cbn [firstn]. rewrite app_nil_r.
                replace (skipn (S (length d0)) (d0 ++ [a; b])) with [b]; [reflexivity|].
                rewrite skipn_app. rewrite skipn_all2 by lia. replace (S (length d0) - length d0)%nat with 1%nat by lia. reflexivity. }
              rewrite S1. cbn [bind]. unfold set_JSONOutput_data. cbn [JSONOutput_data JSONOutput_depth JSONOutput_inField JSONOutput_stack].
              assert (T1 : forall site, go_slice_to site (d0 ++ [10; b]) (Z.of_nat (S (length d0))) = Ok (d0 ++ [10])).
              { intros site. unfold go_slice_to, go_len. rewrite app_length. cbn [length].
                replace ((Z.of_nat (S (length d0)) <? 0) || (Z.of_nat (length d0 + 2) <? Z.of_nat (S (length d0))))%Z with false
                  by (symmetry; apply orb_false_iff; split; apply Z.ltb_ge; lia).
                rewrite Nat2Z.id. rewrite firstn_app, firstn_all2 by lia. replace (S (length d0) - length d0)%nat with 1%nat by lia. reflexivity. }
              rewrite T1. cbn [bind]. eexists. split; [reflexivity|]. repeat split; cbn; auto.
           ++ eexists. split; [reflexivity|]. repeat split; cbn; auto.
        -- cbn [andb]. eexists. split; [reflexivity|]. repeat split; cbn; auto.
Qed.

(** the outcome of a translated method against the outcome of the model's step *)
Definition sim (r : res JSONOutput) (mr : res jout) : Prop :=
  match mr with
  | Ok m' => exists g', r = Ok g' /\ R g' m'
  | Panic _ => exists s, r = Panic s
  | _ => False
  end.

Lemma R_add g m b : R g m -> R (set_JSONOutput_data g (JSONOutput_data g ++ b)) (o_add b m).
Proof. intros (A & B & C & D). destruct g, m. cbn in *. subst. repeat split; auto. Qed.
Lemma small_prefix m : small m -> (Z.of_nat (length (o_data m)) + 2 * Z.of_nat (o_depth m) < 4611686018427387904)%Z -> small (o_prefix m).
Proof.
  intros (A & B & C) H. unfold o_prefix. destruct (o_infield m); repeat split; cbn; auto.
  rewrite app_length. assert (length (indent (o_depth m)) = 2 * o_depth m)%nat.
  { generalize (o_depth m). intros d. unfold indent. induction d; cbn [repeat concat]; [reflexivity|]. rewrite app_length, IHd. cbn. lia. }
  lia.
Qed.

(** room for everything a step can add without leaving Go's int *)
Definition roomy (m : jout) (extra : nat) : Prop :=
  (Z.of_nat (length (o_data m)) + 2 * Z.of_nat (o_depth m) + Z.of_nat extra + 16 < 4611686018427387904
   /\ Z.of_nat (o_depth m) + 1 < 4611686018427387904 /\ Z.of_nat (length (o_stack m)) + 1 < 4611686018427387904)%Z.
Lemma roomy_small m e : roomy m e -> small m.
Proof. intros (A & B & C). repeat split; lia. Qed.

Theorem gen_StartObject : forall g m fuel, R g m -> roomy m 0 -> (o_depth m < fuel)%nat ->
  sim (JSONOutput_StartObject fuel g) (o_step m OStartObject).
Proof.
  intros g m fuel HR Hroom Hf. pose proof (roomy_small _ _ Hroom) as Hs.
  destruct (gen_prefix g m fuel HR Hs Hf) as (g1 & E1 & R1).
  unfold JSONOutput_StartObject. rewrite E1. cbn [bind o_step]. eexists. split; [reflexivity|].
  destruct R1 as (A & B & C & D). destruct Hroom as (_ & Hd & _).
  destruct g1 as [d dep inf st]. destruct (o_prefix m) as [md mdep minf mst] eqn:Ep.
  assert (Hdepth : mdep = o_depth m) by (unfold o_prefix in Ep; destruct (o_infield m); inversion Ep; reflexivity).
  cbn in *. subst. repeat split; cbn; auto.
  - unfold sadd. rewrite swrap64_small' by lia. lia.
  - rewrite map_app, D. reflexivity.
Qed.

Theorem gen_StartArray : forall g m fuel, R g m -> roomy m 0 -> (o_depth m < fuel)%nat ->
  sim (JSONOutput_StartArray fuel g) (o_step m OStartArray).
Proof.
  intros g m fuel HR Hroom Hf. pose proof (roomy_small _ _ Hroom) as Hs.
  destruct (gen_prefix g m fuel HR Hs Hf) as (g1 & E1 & R1).
  unfold JSONOutput_StartArray. rewrite E1. cbn [bind o_step]. eexists. split; [reflexivity|].
  destruct R1 as (A & B & C & D). destruct Hroom as (_ & Hd & _).
  destruct g1 as [d dep inf st]. destruct (o_prefix m) as [md mdep minf mst] eqn:Ep.
  assert (Hdepth : mdep = o_depth m) by (unfold o_prefix in Ep; destruct (o_infield m); inversion Ep; reflexivity).
  cbn in *. subst. repeat split; cbn; auto.
  - unfold sadd. rewrite swrap64_small' by lia. lia.
  - rewrite map_app, D. reflexivity.
Qed.

Lemma trim_length d : (2 <= length d)%nat -> (length (trim d) <= length d)%nat.
Proof.
  intros E. destruct (two_last d E) as (d0 & a & b & ->). rewrite trim_two.
  destruct ((a =? 44) && (b =? 10)); rewrite !app_length; cbn [length]; lia.
Qed.
Lemma o_end_bounds m m1 : o_end m = Ok m1 ->
  (length (o_data m1) <= length (o_data m) + 1 /\ o_depth m1 <= o_depth m /\ length (o_stack m1) <= length (o_stack m))%nat.
Proof.
  unfold o_end. destruct (o_depth m) as [|d]; intros H.
  - inversion H; subst. cbn. rewrite app_length. cbn. lia.
  - destruct (o_stack m) as [|s st]; [discriminate|]. inversion H; subst. cbn [o_data o_depth o_stack length].
    destruct (Nat.ltb (length (o_data m)) 2) eqn:E2; [lia|]. apply Nat.ltb_ge in E2. pose proof (trim_length (o_data m) E2). lia.
Qed.
Lemma o_prefix_facts m : o_depth (o_prefix m) = o_depth m /\ o_stack (o_prefix m) = o_stack m /\
  (length (o_data (o_prefix m)) <= length (o_data m) + 2 * o_depth m)%nat.
Proof.
  unfold o_prefix. destruct (o_infield m); cbn; repeat split; try lia. rewrite app_length.
  assert (length (indent (o_depth m)) = 2 * o_depth m)%nat.
  { generalize (o_depth m). intros d. unfold indent. induction d; cbn [repeat concat]; [reflexivity|]. rewrite app_length, IHd. cbn. lia. }
  lia.
Qed.

Lemma gen_end_close : forall (close : N) g m fuel, R g m -> roomy m 0 -> (o_depth m < fuel)%nat ->
  sim (do j <- JSONOutput_end fuel g; do j <- JSONOutput_prefix fuel j;
       let j := set_JSONOutput_data j (JSONOutput_data j ++ [close]) in
       do j <- JSONOutput_punctuate fuel j; Ok j)
      (do j1 <- o_end m; Ok (o_punct (o_add [close] (o_prefix j1)))).
Proof.
  intros close g m fuel HR Hroom Hf. pose proof (roomy_small _ _ Hroom) as Hs.
  pose proof (gen_end g m fuel HR Hs) as He.
  destruct (o_end m) as [m1| |s| |] eqn:Eend; try contradiction.
  - destruct He as (g1 & E1 & R1). rewrite E1. cbn [bind].
    destruct (o_end_bounds m m1 Eend) as (B1 & B2 & B3). destruct Hroom as (H1 & H2 & H3).
    assert (Hs1 : small m1) by (repeat split; lia).
    destruct (gen_prefix g1 m1 fuel R1 Hs1 ltac:(lia)) as (g2 & E2 & R2). rewrite E2. cbn [bind].
    cbv zeta. pose proof (R_add g2 (o_prefix m1) [close] R2) as R3.
    destruct (o_prefix_facts m1) as (P1 & P2 & P3).
    assert (Hs3 : small (o_add [close] (o_prefix m1))).
    { repeat split; cbn; rewrite ?app_length; cbn [length]; try rewrite P1; try rewrite P2; lia. }
    destruct (gen_punct _ _ fuel R3 Hs3) as (g4 & E4 & R4). rewrite E4. cbn [bind sim]. eexists. split; [reflexivity|exact R4].
  - destruct He as (s' & E1). rewrite E1. cbn [bind sim]. eexists. reflexivity.
Qed.

Theorem gen_EndObject : forall g m fuel, R g m -> roomy m 0 -> (o_depth m < fuel)%nat ->
  sim (JSONOutput_EndObject fuel g) (o_step m OEndObject).
Proof. intros. apply (gen_end_close 125); assumption. Qed.
Theorem gen_EndArray : forall g m fuel, R g m -> roomy m 0 -> (o_depth m < fuel)%nat ->
  sim (JSONOutput_EndArray fuel g) (o_step m OEndArray).
Proof. intros. apply (gen_end_close 93); assumption. Qed.

(** scalars: every scalar method is prefix / append the token / punctuate; Raw is
    that with the token given, String with the escaped literal *)
Theorem gen_Raw : forall g m fuel tok, R g m -> roomy m (length tok) -> (o_depth m < fuel)%nat ->
  sim (JSONOutput_Raw fuel g tok) (o_step m (OScalar (STok tok))).
Proof.
  intros g m fuel tok HR Hroom Hf. pose proof (roomy_small _ _ Hroom) as Hs.
  destruct (gen_prefix g m fuel HR Hs Hf) as (g1 & E1 & R1).
  unfold JSONOutput_Raw. rewrite E1. cbn [bind o_step scal_bytes].
  pose proof (R_add g1 (o_prefix m) tok R1) as R2. destruct (o_prefix_facts m) as (P1 & P2 & P3). destruct Hroom as (H1 & H2 & H3).
  assert (Hs2 : small (o_add tok (o_prefix m))).
  { repeat split; cbn; rewrite ?app_length; try rewrite P1; try rewrite P2; lia. }
  destruct (gen_punct _ _ fuel R2 Hs2) as (g3 & E3 & R3). rewrite E3. cbn [bind sim]. eexists. split; [reflexivity|exact R3].
Qed.

Lemma append_string_length v : (length (append_string v) <= 6 * length v + 2)%nat.
Proof.
  unfold append_string. rewrite !app_length. cbn [length].
  assert (length (flat_map escape_byte v) <= 6 * length v)%nat; [|lia].
  induction v as [|c v IH]; cbn [flat_map length]; [lia|]. rewrite app_length.
  assert (length (escape_byte c) <= 6)%nat; [|lia].
  unfold escape_byte. destruct ((c =? 92) || (c =? 34)); [cbn; lia|]. destruct (c =? 10); [cbn; lia|].
  destruct (c =? 13); [cbn; lia|]. destruct (c =? 9); [cbn; lia|]. destruct (c <? 32); cbn; lia.
Qed.

Theorem gen_String : forall g m fuel v, R g m -> roomy m (6 * length v + 2) -> (o_depth m < fuel)%nat -> (length v < fuel)%nat ->
  sim (JSONOutput_String fuel g v) (o_step m (OScalar (SStr v))).
Proof.
  intros g m fuel v HR Hroom Hf Hfv. pose proof (roomy_small _ _ Hroom) as Hs.
  destruct (gen_prefix g m fuel HR Hs Hf) as (g1 & E1 & R1).
  unfold JSONOutput_String. rewrite E1. cbn [bind o_step scal_bytes].
  destruct Hroom as (H1 & H2 & H3).
  rewrite (gen_appendString v (JSONOutput_data g1) fuel ltac:(lia) Hfv). cbn [bind].
  pose proof (R_add g1 (o_prefix m) (append_string v) R1) as R2. destruct (o_prefix_facts m) as (P1 & P2 & P3).
  pose proof (append_string_length v) as Hal.
  assert (Hs2 : small (o_add (append_string v) (o_prefix m))).
  { unfold small, o_add. cbn [o_data o_depth o_stack]. rewrite ?app_length, ?P1, ?P2. lia. }
  destruct (gen_punct _ _ fuel R2 Hs2) as (g3 & E3 & R3). rewrite E3. cbn [bind sim]. eexists. split; [reflexivity|exact R3].
Qed.

Theorem gen_NameField : forall g m fuel name, R g m -> roomy m (6 * length name + 2) -> (o_depth m < fuel)%nat -> (length name < fuel)%nat ->
  sim (JSONOutput_NameField fuel g name) (o_step m (ONameField name)).
Proof.
  intros g m fuel v HR Hroom Hf Hfv. pose proof (roomy_small _ _ Hroom) as Hs.
  destruct (gen_prefix g m fuel HR Hs Hf) as (g1 & E1 & R1).
  unfold JSONOutput_NameField. rewrite E1. cbn [bind o_step].
  destruct Hroom as (H1 & H2 & H3). cbv zeta.
  assert (R1' : R (set_JSONOutput_inField g1 true) (mkjout (o_data (o_prefix m)) (o_depth (o_prefix m)) true (o_stack (o_prefix m)))).
  { destruct R1 as (A & B & C & D). destruct g1. cbn in *. repeat split; auto. }
  replace (JSONOutput_data (set_JSONOutput_inField g1 true)) with (JSONOutput_data g1) by (destruct g1; reflexivity).
  rewrite (gen_appendString v (JSONOutput_data g1) fuel ltac:(lia) Hfv). cbn [bind].
  set (m2 := mkjout (o_data (o_prefix m)) (o_depth (o_prefix m)) true (o_stack (o_prefix m))) in *.
  pose proof (R_add _ m2 (append_string v) R1') as R2. destruct (o_prefix_facts m) as (P1 & P2 & P3).
  pose proof (append_string_length v) as Hal.
  replace (JSONOutput_data (set_JSONOutput_inField g1 true)) with (JSONOutput_data g1) in R2 by (destruct g1; reflexivity).
  assert (Hs2 : small (o_add (append_string v) m2)).
  { unfold small, o_add, m2. cbn [o_data o_depth o_stack]. rewrite ?app_length, ?P1, ?P2. lia. }
  destruct (gen_punct _ _ fuel R2 Hs2) as (g3 & E3 & R3). rewrite E3. cbn [bind sim]. eexists. split; [reflexivity|exact R3].
Qed.

Theorem gen_Reset : forall g m fuel, R g m -> sim (JSONOutput_Reset fuel g) (o_step m OReset).
Proof.
  intros [d dep inf st] m fuel _. unfold JSONOutput_Reset, go_slice_to, go_len. cbn [JSONOutput_data JSONOutput_stack].
  replace ((0 <? 0) || (Z.of_nat (length d) <? 0))%Z with false by (symmetry; apply orb_false_iff; split; apply Z.ltb_ge; lia).
  cbn [bind set_JSONOutput_data set_JSONOutput_depth set_JSONOutput_inField JSONOutput_data JSONOutput_depth JSONOutput_inField JSONOutput_stack].
  replace ((0 <? 0) || (Z.of_nat (length st) <? 0))%Z with false by (symmetry; apply orb_false_iff; split; apply Z.ltb_ge; lia).
  cbn [bind o_step sim]. eexists. split; [reflexivity|]. repeat split; reflexivity.
Qed.

Theorem gen_Done : forall g m fuel, R g m -> small m ->
  match o_done m with
  | Ok text => exists g', JSONOutput_Done fuel g = Ok (g', text)
  | Panic _ => exists s, JSONOutput_Done fuel g = Panic s
  | _ => False
  end.
Proof.
  intros g m fuel HR Hs. unfold o_done, JSONOutput_Done. pose proof (gen_end g m fuel HR Hs) as He.
  destruct (o_end m) as [m1| |s| |]; try contradiction.
  - destruct He as (g1 & E1 & (A & _)). rewrite E1. cbn [bind]. rewrite A. eexists. reflexivity.
  - destruct He as (s' & E1). rewrite E1. eexists. reflexivity.
Qed.

(** ** whole call sequences *)
Definition gen_step (fuel : nat) (g : JSONOutput) (op : oop) : res JSONOutput :=
  match op with
  | OStartObject => JSONOutput_StartObject fuel g
  | OEndObject => JSONOutput_EndObject fuel g
  | OStartArray => JSONOutput_StartArray fuel g
  | OEndArray => JSONOutput_EndArray fuel g
  | ONameField n => JSONOutput_NameField fuel g n
  | OScalar (STok t) => JSONOutput_Raw fuel g t
  | OScalar (SStr v) => JSONOutput_String fuel g v
  | OReset => JSONOutput_Reset fuel g
  end.
Fixpoint gen_run (fuel : nat) (g : JSONOutput) (ops : list oop) : res JSONOutput :=
  match ops with
  | [] => Ok g
  | op :: r => do g1 <- gen_step fuel g op; gen_run fuel g1 r
  end.

Definition op_extra (op : oop) : nat :=
  match op with
  | ONameField n => 6 * length n + 2
  | OScalar (STok t) => length t
  | OScalar (SStr v) => 6 * length v + 2
  | _ => 0
  end.
Definition op_len (op : oop) : nat :=
  match op with ONameField n => length n | OScalar (SStr v) => length v | _ => 0 end.

(** the document stays within Go's int (2^62 bytes, with room for the next call)
    and the loops within their fuel, at every state the sequence goes through *)
Fixpoint within (fuel : nat) (m : jout) (ops : list oop) : Prop :=
  match ops with
  | [] => True
  | op :: r =>
    roomy m (op_extra op) /\ (o_depth m < fuel)%nat /\ (op_len op < fuel)%nat /\
    match o_step m op with Ok m1 => within fuel m1 r | _ => True end
  end.

Lemma gen_step_sim fuel g m op : R g m -> roomy m (op_extra op) -> (o_depth m < fuel)%nat -> (op_len op < fuel)%nat ->
  sim (gen_step fuel g op) (o_step m op).
Proof.
  intros HR Hroom Hf Hl. destruct op as [| | | |n|[t|v]|]; cbn [gen_step op_extra op_len] in *.
  - apply gen_StartObject; assumption.
  - apply gen_EndObject; assumption.
  - apply gen_StartArray; assumption.
  - apply gen_EndArray; assumption.
  - apply gen_NameField; assumption.
  - apply gen_Raw; assumption.
  - apply gen_String; assumption.
  - apply gen_Reset; assumption.
Qed.

Theorem gen_run_sim : forall ops fuel g m, R g m -> within fuel m ops -> sim (gen_run fuel g ops) (o_run m ops).
Proof.
  induction ops as [|op r IH]; intros fuel g m HR Hw.
  - cbn [gen_run o_run sim]. eexists. split; [reflexivity|exact HR].
  - cbn [within] in Hw. destruct Hw as (Hroom & Hf & Hl & Hrest).
    pose proof (gen_step_sim fuel g m op HR Hroom Hf Hl) as Hs. cbn [gen_run o_run].
    destruct (o_step m op) as [m1| |s| |]; cbn [sim] in Hs; try contradiction.
    + destruct Hs as (g1 & E1 & R1). rewrite E1. cbn [bind]. apply IH; assumption.
    + destruct Hs as (s' & E1). rewrite E1. cbn [bind sim]. eexists. reflexivity.
Qed.

(** a new outputter *)
Definition gen_init : JSONOutput := mkJSONOutput [] 0 false [].
Lemma R_init : R gen_init jout_init.
Proof. repeat split; reflexivity. Qed.

(** what the translated code writes for a whole call tree: the reference
    rendering (C15_render), through the translated methods *)
Theorem gen_renders_tree : forall t fuel,
  within fuel jout_init (ops_of t) ->
  (forall m1, o_run jout_init (ops_of t) = Ok m1 -> small m1) ->
  exists g1 g2, gen_run fuel gen_init (ops_of t) = Ok g1 /\ JSONOutput_Done fuel g1 = Ok (g2, render 0 false t ++ [10]).
Proof.
  intros t fuel Hw Hsm. pose proof (gen_run_sim (ops_of t) fuel gen_init jout_init R_init Hw) as Hs.
  pose proof (output_render t) as Hr.
  destruct (o_run jout_init (ops_of t)) as [m1| | | |] eqn:Erun; cbn [bind] in Hr; try discriminate.
  cbn [sim] in Hs. destruct Hs as (g1 & E1 & R1). exists g1.
  pose proof (gen_Done g1 m1 fuel R1 (Hsm m1 eq_refl)) as Hd. rewrite Hr in Hd. destruct Hd as (g2 & E2).
  exists g2. split; assumption.
Qed.

(** ** a closed form for [within]: the sequence is short enough for Go's int and
    for the fuel.  Every call adds at most 2*depth + its own text + 6 bytes and
    one level of nesting. *)
Lemma o_punct_facts m : o_depth (o_punct m) = o_depth m /\ length (o_stack (o_punct m)) = length (o_stack m) /\
  (length (o_data (o_punct m)) <= length (o_data m) + 2)%nat.
Proof.
  unfold o_punct. destruct (o_stack m) as [|[| |] st] eqn:E; cbn [o_depth o_stack o_data length]; rewrite ?E; cbn [length];
    rewrite ?app_length; cbn [length]; repeat split; lia.
Qed.

Lemma step_growth m op m1 : o_step m op = Ok m1 ->
  (length (o_data m1) <= length (o_data m) + 2 * o_depth m + op_extra op + 6 /\ o_depth m1 <= o_depth m + 1
   /\ length (o_stack m1) <= length (o_stack m) + 1)%nat.
Proof.
  destruct (o_prefix_facts m) as (P1 & P2 & P3).
  destruct op as [| | | |n|s|]; cbn [o_step op_extra]; intros H.
  - inversion H; subst. cbn [o_data o_depth o_stack o_add length]. rewrite app_length, P1, P2. cbn [length]. lia.
  - destruct (o_end m) as [m0| | | |] eqn:E; cbn [bind] in H; try discriminate. inversion H; subst.
    destruct (o_end_bounds m m0 E) as (B1 & B2 & B3). destruct (o_prefix_facts m0) as (Q1 & Q2 & Q3).
    destruct (o_punct_facts (o_add [125] (o_prefix m0))) as (U1 & U2 & U3).
    rewrite U1, U2. cbn [o_add o_data o_depth o_stack] in *. rewrite app_length in U3. cbn [length] in U3. rewrite Q1, Q2. lia.
  - inversion H; subst. cbn [o_data o_depth o_stack o_add length]. rewrite app_length, P1, P2. cbn [length]. lia.
  - destruct (o_end m) as [m0| | | |] eqn:E; cbn [bind] in H; try discriminate. inversion H; subst.
    destruct (o_end_bounds m m0 E) as (B1 & B2 & B3). destruct (o_prefix_facts m0) as (Q1 & Q2 & Q3).
    destruct (o_punct_facts (o_add [93] (o_prefix m0))) as (U1 & U2 & U3).
    rewrite U1, U2. cbn [o_add o_data o_depth o_stack] in *. rewrite app_length in U3. cbn [length] in U3. rewrite Q1, Q2. lia.
  - inversion H; subst. clear H. pose proof (append_string_length n) as Hal.
    remember (o_add (append_string n) (mkjout (o_data (o_prefix m)) (o_depth (o_prefix m)) true (o_stack (o_prefix m)))) as m3 eqn:E3.
    destruct (o_punct_facts m3) as (U1 & U2 & U3).
    assert (A1 : length (o_data m3) = (length (o_data (o_prefix m)) + length (append_string n))%nat) by (subst m3; cbn [o_add o_data]; apply app_length).
    assert (A2 : o_depth m3 = o_depth m) by (subst m3; cbn [o_add o_depth]; exact P1).
    assert (A3 : length (o_stack m3) = length (o_stack m)) by (subst m3; cbn [o_add o_stack]; rewrite P2; reflexivity).
    rewrite U1, U2. lia.
  - inversion H; subst. clear H.
    remember (o_add (scal_bytes s) (o_prefix m)) as m3 eqn:E3.
    destruct (o_punct_facts m3) as (U1 & U2 & U3).
    assert (A1 : length (o_data m3) = (length (o_data (o_prefix m)) + length (scal_bytes s))%nat) by (subst m3; cbn [o_add o_data]; apply app_length).
    assert (A2 : o_depth m3 = o_depth m) by (subst m3; cbn [o_add o_depth]; exact P1).
    assert (A3 : length (o_stack m3) = length (o_stack m)) by (subst m3; cbn [o_add o_stack]; rewrite P2; reflexivity).
    assert (A4 : (length (scal_bytes s) <= op_extra (OScalar s))%nat).
    { destruct s as [t|v]; cbn [scal_bytes op_extra]; [lia|apply append_string_length]. }
    rewrite U1, U2. cbn [op_extra] in A4. destruct s; cbn [op_extra] in *; lia.
  - inversion H; subst. cbn. lia.
Qed.

Definition ops_extra (ops : list oop) : nat := fold_right (fun op a => op_extra op + a)%nat 0%nat ops.

Theorem within_of_bound : forall ops fuel m,
  (o_depth m + length ops < fuel)%nat ->
  Forall (fun op => op_len op < fuel)%nat ops ->
  (Z.of_nat (length (o_data m)) + Z.of_nat (length ops) * (2 * (Z.of_nat (o_depth m) + Z.of_nat (length ops)) + 6)
   + Z.of_nat (ops_extra ops) + 2 * (Z.of_nat (o_depth m) + Z.of_nat (length ops)) + 16 < 4611686018427387904)%Z ->
  (Z.of_nat (length (o_stack m)) + Z.of_nat (length ops) + 1 < 4611686018427387904)%Z ->
  within fuel m ops.
Proof.
  induction ops as [|op r IH]; intros fuel m Hf Hl Hd Hs; [exact I|].
  cbn [within]. cbn [length ops_extra fold_right] in *. fold (ops_extra r) in Hd. inversion Hl as [|? ? Hop Hr]; subst.
  split; [|split; [lia|split; [exact Hop|]]].
  - unfold roomy. repeat split; try lia; nia.
  - destruct (o_step m op) as [m1| | | |] eqn:E; try exact I.
    destruct (step_growth m op m1 E) as (G1 & G2 & G3).
    apply IH; [lia|exact Hr| |lia].
    (* the budget of the remaining calls: products abstracted, the rest is linear *)
    remember (Z.of_nat (length (o_data m1))) as a1. remember (Z.of_nat (length (o_data m))) as a.
    remember (Z.of_nat (o_depth m1)) as d1. remember (Z.of_nat (o_depth m)) as d.
    remember (Z.of_nat (length r)) as n. remember (Z.of_nat (ops_extra r)) as x. remember (Z.of_nat (op_extra op)) as y.
    assert (G1z : (a1 <= a + 2 * d + y + 6)%Z) by lia. assert (G2z : (d1 <= d + 1)%Z) by lia.
    assert (Hn : (0 <= n)%Z) by lia. assert (Hd0 : (0 <= d)%Z) by lia. assert (Hd1 : (0 <= d1)%Z) by lia.
    replace (Z.of_nat (S (length r))) with (n + 1)%Z in Hd by lia.
    replace (Z.of_nat (op_extra op + ops_extra r)) with (y + x)%Z in Hd by lia.
    replace ((n + 1) * (2 * (d + (n + 1)) + 6))%Z with (n * (2 * (d + 1 + n) + 6) + (2 * (d + 1 + n) + 6))%Z in Hd by ring.
    assert (Hm : (n * (2 * (d1 + n) + 6) <= n * (2 * (d + 1 + n) + 6))%Z) by (apply Z.mul_le_mono_nonneg_l; lia).
    remember (n * (2 * (d1 + n) + 6))%Z as P1. remember (n * (2 * (d + 1 + n) + 6))%Z as P.
    lia.
Qed.

Lemma run_growth : forall ops m m1, o_run m ops = Ok m1 ->
  (Z.of_nat (length (o_data m1)) <= Z.of_nat (length (o_data m)) + Z.of_nat (length ops) * (2 * (Z.of_nat (o_depth m) + Z.of_nat (length ops)) + 6) + Z.of_nat (ops_extra ops)
   /\ Z.of_nat (o_depth m1) <= Z.of_nat (o_depth m) + Z.of_nat (length ops)
   /\ Z.of_nat (length (o_stack m1)) <= Z.of_nat (length (o_stack m)) + Z.of_nat (length ops))%Z.
Proof.
  induction ops as [|op r IH]; intros m m1 H; cbn [o_run] in H.
  - inversion H; subst. cbn [length ops_extra fold_right]. lia.
  - destruct (o_step m op) as [m0| | | |] eqn:E; cbn [bind] in H; try discriminate.
    destruct (step_growth m op m0 E) as (G1 & G2 & G3). destruct (IH m0 m1 H) as (I1 & I2 & I3).
    cbn [length ops_extra fold_right]. fold (ops_extra r).
    assert (G1z : (Z.of_nat (length (o_data m0)) <= Z.of_nat (length (o_data m)) + 2 * Z.of_nat (o_depth m) + Z.of_nat (op_extra op) + 6)%Z) by lia.
    assert (G2z : (Z.of_nat (o_depth m0) <= Z.of_nat (o_depth m) + 1)%Z) by lia.
    remember (Z.of_nat (length (o_data m0))) as a0. remember (Z.of_nat (length (o_data m))) as a.
    remember (Z.of_nat (o_depth m0)) as d0. remember (Z.of_nat (o_depth m)) as d.
    remember (Z.of_nat (length r)) as n. remember (Z.of_nat (ops_extra r)) as x. remember (Z.of_nat (op_extra op)) as y.
    remember (Z.of_nat (length (o_data m1))) as a1.
    assert (0 <= n)%Z by lia. assert (0 <= d)%Z by lia. assert (0 <= d0)%Z by lia.
    repeat split; try lia.
    replace (Z.of_nat (S (length r))) with (n + 1)%Z by lia. replace (Z.of_nat (op_extra op + ops_extra r)) with (y + x)%Z by lia.
    assert (n * (2 * (d0 + n) + 6) <= n * (2 * (d + 1 + n) + 6))%Z by (apply Z.mul_le_mono_nonneg_l; lia).
    nia.
Qed.

(** C15 on the code as translated, with nothing left to assume but the size of the document *)
Theorem gen_renders_tree_bounded : forall t fuel,
  let ops := ops_of t in
  (length ops < fuel)%nat -> Forall (fun op => op_len op < fuel)%nat ops ->
  (Z.of_nat (length ops) * (2 * Z.of_nat (length ops) + 8) + Z.of_nat (ops_extra ops) + 17 < 4611686018427387904)%Z ->
  exists g1 g2, gen_run fuel gen_init ops = Ok g1 /\ JSONOutput_Done fuel g1 = Ok (g2, render 0 false t ++ [10]).
Proof.
  intros t fuel ops Hf Hl Hb. apply gen_renders_tree.
  - apply within_of_bound; cbn [jout_init o_depth o_data o_stack length]; try assumption; try lia; fold ops; nia.
  - intros m1 Hrun. destruct (run_growth _ _ _ Hrun) as (G1 & G2 & G3). cbn [jout_init o_depth o_data o_stack length] in *.
    fold ops in G1, G2, G3. repeat split; nia.
Qed.
