(** Correspondence for C19: sequential histories of interned reads. *)
From Plenc Require Import Base Intern.
Open Scope N_scope.

Inductive c19case := K19 (inputs : list bytes) (results : list bytes).

Fixpoint lbeq (a b : list bytes) : bool :=
  match a, b with [], [] => true | x :: a', y :: b' => beq x y && lbeq a' b' | _, _ => false end.

Definition check19 (k : c19case) : option (list bytes) :=
  let 'K19 ins res := k in
  let m := seq_results ins in
  if lbeq m res then None else Some m.

Fixpoint mismatches_C19 (base : N) (cs : list c19case) : list (N * list bytes) :=
  match cs with
  | [] => []
  | k :: rest =>
    match check19 k with
    | None => mismatches_C19 (base + 1) rest
    | Some e => (base, e) :: mismatches_C19 (base + 1) rest
    end
  end.
