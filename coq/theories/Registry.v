(** Model of codec construction: codec.go CodecForTypeRegistry, plenc.go
    RegisterDefaultCodecs, plenccodec/struct.go BuildStructCodec,
    plenccodec/map.go BuildMapCodec, null/null.go AddCodecs. *)
From Plenc Require Import Base Varint Wire JsonAny Codec.
Open Scope N_scope.

(** ** Go type descriptions (what the harness can observe through reflect) *)
Inductive ty :=
| TBool
| TInt (b : N)          (* 0 = int, else int8/16/32/64 *)
| TUint (b : N)         (* 0 = uint, else uint8/16/32/64 *)
| TF32 | TF64
| TString
| TPtr (t : ty)
| TSlice (t : ty)
| TMap (k v : ty)
| TStruct (id : N)      (* identity; the definition is in the environment *)
| TNamed (id : N) (t : ty)   (* a named non-struct type *)
| TExt (k : N)          (* 0 time.Time, 1 null.Int, 2 null.Bool, 3 null.Float, 4 null.String, 5 null.Time *)
| TIface
| TBad (k : N).         (* complex, array, chan, func, uintptr, unsafe.Pointer *)

Record fdef := mkfdef {
  fd_exported : bool;
  fd_name : bytes;
  fd_plenc : bytes;      (* sf.Tag.Get("plenc") *)
  fd_json : bytes;       (* sf.Tag.Get("json") *)
  fd_ty : ty }.
Record sdef := mksdef { sd_name : bytes; sd_fields : list fdef }.
Definition env := list sdef.

Fixpoint bytes_eqb (a b : bytes) : bool :=
  match a, b with [], [] => true | p :: a', q :: b' => (p =? q) && bytes_eqb a' b' | _, _ => false end.

Fixpoint ty_eqb (a b : ty) : bool :=
  match a, b with
  | TBool, TBool | TF32, TF32 | TF64, TF64 | TString, TString | TIface, TIface => true
  | TInt x, TInt y | TUint x, TUint y | TStruct x, TStruct y | TExt x, TExt y | TBad x, TBad y => x =? y
  | TPtr x, TPtr y | TSlice x, TSlice y => ty_eqb x y
  | TMap k v, TMap k' v' => ty_eqb k k' && ty_eqb v v'
  | TNamed i x, TNamed j y => (i =? j) && ty_eqb x y
  | _, _ => false
  end.

(** the type whose Kind() decides the construction: named types have the kind
    of their underlying type *)
Fixpoint strip (t : ty) : ty := match t with TNamed _ u => strip u | _ => t end.
Definition is_map_kind (t : ty) : bool := match strip t with TMap _ _ => true | _ => false end.
Definition is_ptr_kind (t : ty) : bool := match strip t with TPtr _ => true | _ => false end.

(** ** Registry *)
Definition regs := list (ty * bytes * codec).
Definition lookup (r : regs) (t : ty) (tag : bytes) : option codec :=
  match find (fun e => ty_eqb (fst (fst e)) t && bytes_eqb (snd (fst e)) tag) r with
  | Some e => Some (snd e)
  | None => None
  end.

Definition s_flat : bytes := [102;108;97;116].
Definition s_intern : bytes := [105;110;116;101;114;110].
Definition s_proto : bytes := [112;114;111;116;111].
Definition s_bq : bytes := [98;113].
Definition bitsof (b : N) : N := if b =? 0 then 64 else b.

(** RegisterDefaultCodecs *)
Definition default_regs (proto_time : bool) : regs :=
  [ (TBool, [], CBool); (TF64, [], CF64); (TF32, [], CF32) ]
  ++ map (fun b => (TInt b, [], CInt (bitsof b))) [0;8;16;32;64]
  ++ map (fun b => (TInt b, s_flat, CFlat (bitsof b))) [0;8;16;32;64]
  ++ map (fun b => (TUint b, [], CUint (bitsof b))) [0;64;32;16;8]
  ++ [ (TString, [], CString); (TString, s_intern, CString);
       (TSlice (TUint 8), [], CBytes);
       (TExt 0, [], CTime proto_time) ].
(** null.AddCodecs *)
Definition null_regs : regs :=
  [ (TExt 1, [], CNull (CInt 64)); (TExt 2, [], CNull CBool); (TExt 3, [], CNull CF64);
    (TExt 4, [], CNull CString); (TExt 5, [], CNull (CTime false)) ].
(** the JSON codecs registered for map[string]any and []any *)
Definition json_regs : regs :=
  [ (TMap TString TIface, [], CJMap); (TSlice TIface, [], CJArr) ].
(** BQTimestampCodec registered for time.Time under the tag "bq" *)
Definition bq_regs : regs := [ (TExt 0, s_bq, CBQ) ].

(** registrations made by the user of one instance (RegisterCodec /
    RegisterCodecWithTag after RegisterDefaultCodecs): int64 encoded with the
    flat codec (overriding the default - Store replaces), and the tag "zz"
    registered for string and for int32 *)
Definition s_zz : bytes := [122;122].
Definition custom_regs : regs :=
  [ (TInt 64, [], CFlat 64); (TString, s_zz, CString); (TInt 32, s_zz, CInt 32) ].

Record cfg := mkcfg {
  proto_time : bool; proto_arrays : bool;
  with_null : bool; with_json : bool; with_bq : bool; with_custom : bool }.
Definition regs_of (c : cfg) : regs :=
  (if with_custom c then custom_regs else [])
  ++ default_regs (proto_time c)
  ++ (if with_null c then null_regs else [])
  ++ (if with_json c then json_regs else [])
  ++ (if with_bq c then bq_regs else []).

(** ** Tag parsing *)

(** strconv.Atoi: optional sign, at least one digit, digits only, int64 range *)
Definition is_digit (b : N) : bool := (48 <=? b) && (b <=? 57).
Fixpoint digits_value (s : bytes) (acc : Z) : option Z :=
  match s with
  | [] => Some acc
  | d :: r => if is_digit d then digits_value r (acc * 10 + Z.of_N (d - 48))%Z else None
  end.
Definition atoi (s : bytes) : option Z :=
  let '(neg, ds) := match s with
                    | 45 :: r => (true, r)
                    | 43 :: r => (false, r)
                    | _ => (false, s)
                    end in
  match ds with
  | [] => None
  | _ => match digits_value ds 0%Z with
         | None => None
         | Some v => let v' := if neg then (- v)%Z else v in
                     if ((- two63Z <=? v') && (v' <? two63Z))%Z then Some v' else None
         end
  end.

(** split at the first occurrence of [sep] *)
Fixpoint cut (sep : N) (s : bytes) : bytes * option bytes :=
  match s with
  | [] => ([], None)
  | c :: r => if c =? sep then ([], Some r)
              else let '(a, b) := cut sep r in (c :: a, b)
  end.

(** indexes above this bound make BuildStructCodec allocate a lookup table that
    is not bounded by the size of the type definition *)
Definition max_sane_index : Z := 1048576%Z.

(** BuildStructCodec's loop over the fields, parameterised by the codec lookup
    for the field types *)
Fixpoint build_fields (cf : ty -> bytes -> res codec) (i : nat) (l : list fdef) {struct l} : res (list (fld codec)) :=
  match l with
  | [] => Ok []
  | fd :: r =>
    if negb (fd_exported fd) then build_fields cf (S i) r else
    let tg := fd_plenc fd in
    if bytes_eqb tg [] then Err                                  (* no plenc tag *)
    else if bytes_eqb tg [45] then build_fields cf (S i) r       (* "-" *)
    else
      let '(num, post) := cut 44 tg in
      let postfix := match post with Some p => p | None => [] end in
      match atoi num with
      | None => Err
      | Some index =>
        if (index <? 0)%Z then Err else
        let name := match fst (cut 44 (fd_json fd)) with [] => fd_name fd | j => j end in
        let postfix' := if bytes_eqb postfix s_intern then [] else postfix in
        do fc <- cf (fd_ty fd) postfix';
        do rest <- build_fields cf (S i) r;
        Ok (mkfld i index name fc :: rest)
      end
  end.

Fixpoint has_dup (l : list (fld codec)) : bool :=
  match l with
  | [] => false
  | f1 :: r => existsb (fun f2 => (f_index f1 =? f_index f2)%Z) r || has_dup r
  end.

(** ** CodecForTypeRegistry.  [fuel] bounds the unfolding of recursive types. *)
Section Build.
  Variable C : cfg.
  Variable E : env.

  Definition basic (t : ty) (tag : bytes) : res codec :=
    match lookup (regs_of C) t tag with Some c => Ok c | None => Err end.

  Fixpoint codec_for (fuel : nat) (t : ty) (tag : bytes) {struct fuel} : res codec :=
    match fuel with
    | O => Ok CBottom
    | S f =>
      match lookup (regs_of C) t tag with
      | Some c => Ok c
      | None =>
        match strip t with
        | TPtr e =>
          if is_map_kind e then Err else
          do sub <- codec_for f e tag; Ok (CPtr sub)
        | TStruct id =>
          match tag with _ :: _ => Err | [] =>
          match nth_error E (N.to_nat id) with
          | None => Err
          | Some sd =>
            (* BuildStructCodec: fields in declaration order *)
            do fs <- build_fields (codec_for f) O (sd_fields sd);
            let maxidx := fold_right (fun f acc => Z.max (f_index f) acc) 0%Z fs in
            if (max_sane_index <=? maxidx)%Z then Blowup "BuildStructCodec make(fieldsByIndex, maxIndex+1)" else
            if has_dup fs
            then Err
            else Ok (CStruct (sd_name sd) (length (sd_fields sd)) fs)
          end
          end
        | TSlice e =>
          if negb (bytes_eqb tag [] || bytes_eqb tag s_proto) then Err else
          do sub <- codec_for f e [];
          let w := wire sub in
          if w =? WTVarInt then Ok (CSliceVar sub)
          else if (w =? WT64) || (w =? WT32) then
            (if is_ptr_kind e then Err else Ok (CSliceFix sub))
          else if w =? WTLength then
            (if proto_arrays C || bytes_eqb tag s_proto then Ok (CSliceProto sub) else Ok (CSliceLen sub))
          else Err
        | TMap k v =>
          if negb (bytes_eqb tag [] || bytes_eqb tag s_proto) then Err else
          if is_map_kind v then Err else
          do kc <- codec_for f k [];
          do vc <- codec_for f v [];
          if bytes_eqb tag s_proto then Ok (CMapProto kc vc) else Ok (CMap kc vc)
        | TBool => basic TBool tag
        | TInt b => basic (TInt b) tag
        | TUint b => basic (TUint b) tag
        | TF32 => basic TF32 tag
        | TF64 => basic TF64 tag
        | TString => basic TString tag
        | TExt k =>
          (* an unregistered external struct type is built like any struct:
             time.Time has only unexported fields; the null types have exported
             fields without plenc tags *)
          match tag with _ :: _ => Err | [] =>
          if k =? 0 then Ok (CStruct [84;105;109;101] 3 []) else Err end
        | TNamed _ _ | TIface | TBad _ => Err
        end
      end
    end.
End Build.
