(** Proofs about the varint / zig-zag model (all 64-bit values, no bound). *)
From Plenc Require Import Base Varint.
Open Scope N_scope.

Lemma pow_7S (i : nat) : 2 ^ (7 * N.of_nat (S i)) = 128 * 2 ^ (7 * N.of_nat i).
Proof.
  replace (7 * N.of_nat (S i)) with (7 + 7 * N.of_nat i) by lia.
  rewrite N.pow_add_r. reflexivity.
Qed.

Lemma pow7_pos (i : nat) : 0 < 2 ^ (7 * N.of_nat i).
Proof. apply N.neq_0_lt_0. apply N.pow_nonzero. lia. Qed.

Lemma uvarint_append_fuel : forall fuel i v x rest,
  (i + fuel = 9)%nat ->
  v * 2 ^ (7 * N.of_nat i) < two64 ->
  uvarint_go (append_varuint_fuel fuel v ++ rest) i x
  = (x + v * 2 ^ (7 * N.of_nat i),
     (Z.of_nat i + Z.of_nat (length (append_varuint_fuel fuel v)))%Z).
Proof.
  induction fuel as [|f IH]; intros i v x rest Hi Hv.
  - assert (i = 9)%nat by lia. subst i.
    cbn [append_varuint_fuel app uvarint_go].
    change (2 ^ (7 * N.of_nat 9)) with 9223372036854775808 in *.
    unfold two64 in Hv.
    assert (v < 2) by lia.
    rewrite (N.mod_small v 256) by lia.
    replace (Nat.eqb 9 10) with false by reflexivity.
    replace (v <? 128) with true by (symmetry; apply N.ltb_lt; lia).
    replace (1 <? v) with false by (symmetry; apply N.ltb_ge; lia).
    cbn. f_equal.
  - cbn [append_varuint_fuel].
    assert (Hne : Nat.eqb i 10 = false) by (apply Nat.eqb_neq; lia).
    destruct (v <? 128) eqn:Hlt.
    + cbn [app uvarint_go length]. rewrite Hne, Hlt.
      replace (Nat.eqb i 9) with false by (symmetry; apply Nat.eqb_neq; lia).
      cbn [andb]. f_equal. lia.
    + apply N.ltb_ge in Hlt.
      cbn [app uvarint_go length]. rewrite Hne.
      replace (v mod 128 + 128 <? 128) with false by (symmetry; apply N.ltb_ge; lia).
      replace (v mod 128 + 128 - 128) with (v mod 128) by lia.
      rewrite IH.
      * rewrite pow_7S. f_equal.
        -- pose proof (N.div_mod v 128 ltac:(lia)) as Hdm.
           set (p := 2 ^ (7 * N.of_nat i)) in *.
           rewrite Hdm at 3. lia.
        -- lia.
      * lia.
      * rewrite pow_7S.
        pose proof (N.div_mod v 128 ltac:(lia)) as Hdm.
        pose proof (pow7_pos i).
        set (p := 2 ^ (7 * N.of_nat i)) in *.
        assert (v / 128 * 128 <= v) by lia.
        nia.
Qed.

(** C18: reading what was appended returns the value and the appended length,
    whatever follows. *)
Theorem read_append_varuint : forall v rest,
  v < two64 ->
  read_varuint (append_varuint v ++ rest) = (v, Z.of_N (len (append_varuint v))).
Proof.
  intros v rest Hv. unfold read_varuint, append_varuint.
  rewrite uvarint_append_fuel by (cbn; lia).
  cbn [N.of_nat N.mul N.pow]. f_equal; unfold len; lia.
Qed.

(** Length of the encoding, characterised by magnitude. *)
Lemma append_fuel_length_le : forall fuel v,
  (1 <= length (append_varuint_fuel fuel v) <= S fuel)%nat.
Proof.
  induction fuel as [|f IH]; intros v; cbn [append_varuint_fuel].
  - cbn. lia.
  - destruct (v <? 128); cbn [length]; [lia|]. specialize (IH (v / 128)). lia.
Qed.

Lemma append_varuint_length_bounds v :
  1 <= len (append_varuint v) <= 10.
Proof.
  unfold len, append_varuint. pose proof (append_fuel_length_le 9 v). lia.
Qed.

Lemma append_fuel_length_char : forall fuel v k,
  (k <= fuel)%nat ->
  v < 128 ^ N.of_nat (S k) ->
  (k = 0%nat \/ 128 ^ N.of_nat k <= v) ->
  length (append_varuint_fuel fuel v) = S k.
Proof.
  induction fuel as [|f IH]; intros v k Hk Hup Hlo.
  - assert (k = 0)%nat by lia. subst. reflexivity.
  - cbn [append_varuint_fuel]. destruct (v <? 128) eqn:Hlt.
    + apply N.ltb_lt in Hlt. destruct k as [|k]; [reflexivity|].
      exfalso. destruct Hlo as [Hlo|Hlo]; [lia|].
      assert (128 ^ 1 <= 128 ^ N.of_nat (S k)) by (apply N.pow_le_mono_r; lia).
      change (128 ^ 1) with 128 in *. lia.
    + apply N.ltb_ge in Hlt. destruct k as [|k].
      * change (128 ^ N.of_nat 1) with 128 in Hup. lia.
      * cbn [length]. f_equal. apply IH.
        -- lia.
        -- replace (N.of_nat (S (S k))) with (1 + N.of_nat (S k)) in Hup by lia.
           rewrite N.pow_add_r in Hup. change (128 ^ 1) with 128 in Hup.
           apply N.div_lt_upper_bound; lia.
        -- destruct k as [|k]; [left; reflexivity|right].
           destruct Hlo as [Hlo|Hlo]; [lia|].
           replace (N.of_nat (S (S k))) with (1 + N.of_nat (S k)) in Hlo by lia.
           rewrite N.pow_add_r in Hlo. change (128 ^ 1) with 128 in Hlo.
           apply N.div_le_lower_bound; lia.
Qed.

Lemma pow128 k : 128 ^ k = 2 ^ (7 * k).
Proof. rewrite N.pow_mul_r. reflexivity. Qed.

(** C18: the k-byte codes are exactly the values below 2^(7k) (k = 1..9), the
    rest of the 64-bit range takes 10 bytes. *)
Lemma append_varuint_length_k : forall v k,
  (k <= 9)%nat ->
  v < 2 ^ (7 * N.of_nat (S k)) ->
  (k = 0%nat \/ 2 ^ (7 * N.of_nat k) <= v) ->
  len (append_varuint v) = N.of_nat (S k).
Proof.
  intros v k Hk Hup Hlo. unfold len, append_varuint.
  rewrite (append_fuel_length_char 9 v k); auto.
  - rewrite pow128. exact Hup.
  - destruct Hlo; [left; assumption|right]. rewrite pow128. assumption.
Qed.

Lemma size_varuint_k : forall v k,
  v < 2 ^ (7 * N.of_nat (S k)) ->
  (k = 0%nat \/ 2 ^ (7 * N.of_nat k) <= v) ->
  size_varuint v = N.of_nat (S k).
Proof.
  intros v k Hup Hlo. unfold size_varuint.
  destruct (v <? 128) eqn:Hlt.
  - apply N.ltb_lt in Hlt. destruct k as [|k]; [reflexivity|].
    destruct Hlo as [Hlo|Hlo]; [lia|].
    assert (2 ^ (7 * 1) <= 2 ^ (7 * N.of_nat (S k))) by (apply N.pow_le_mono_r; lia).
    change (2 ^ (7 * 1)) with 128 in *. lia.
  - apply N.ltb_ge in Hlt.
    assert (Hv0 : v <> 0) by lia.
    rewrite N.size_log2 by exact Hv0.
    destruct k as [|k].
    + change (2 ^ (7 * N.of_nat 1)) with 128 in Hup. lia.
    + destruct Hlo as [Hlo|Hlo]; [lia|].
      assert (Hl1 : 7 * N.of_nat (S k) <= N.log2 v)
        by (apply N.log2_le_pow2; [lia|exact Hlo]).
      assert (Hl2 : N.log2 v < 7 * N.of_nat (S (S k)))
        by (apply N.log2_lt_pow2; [lia|exact Hup]).
      assert (E : N.succ (N.log2 v) + 6 = 7 * N.of_nat (S (S k)) + (N.log2 v - 7 * N.of_nat (S k))) by lia.
      rewrite E.
      rewrite N.mul_comm, N.div_add_l by lia.
      rewrite N.div_small by lia. lia.
Qed.

(** every 64-bit value falls in exactly one byte-length class *)
Lemma varuint_class : forall v, v < two64 ->
  exists k, (k <= 9)%nat /\ v < 2 ^ (7 * N.of_nat (S k)) /\
            (k = 0%nat \/ 2 ^ (7 * N.of_nat k) <= v).
Proof.
  intros v Hv. unfold two64 in Hv.
  destruct (N.lt_ge_cases v (2 ^ 7)) as [H1|H1]; [exists 0%nat; cbn; split; [lia|split; [exact H1|left; reflexivity]]|].
  destruct (N.lt_ge_cases v (2 ^ 14)) as [H2|H2]; [exists 1%nat; cbn; split; [lia|split; [exact H2|right; exact H1]]|].
  destruct (N.lt_ge_cases v (2 ^ 21)) as [H3|H3]; [exists 2%nat; cbn; split; [lia|split; [exact H3|right; exact H2]]|].
  destruct (N.lt_ge_cases v (2 ^ 28)) as [H4|H4]; [exists 3%nat; cbn; split; [lia|split; [exact H4|right; exact H3]]|].
  destruct (N.lt_ge_cases v (2 ^ 35)) as [H5|H5]; [exists 4%nat; cbn; split; [lia|split; [exact H5|right; exact H4]]|].
  destruct (N.lt_ge_cases v (2 ^ 42)) as [H6|H6]; [exists 5%nat; cbn; split; [lia|split; [exact H6|right; exact H5]]|].
  destruct (N.lt_ge_cases v (2 ^ 49)) as [H7|H7]; [exists 6%nat; cbn; split; [lia|split; [exact H7|right; exact H6]]|].
  destruct (N.lt_ge_cases v (2 ^ 56)) as [H8|H8]; [exists 7%nat; cbn; split; [lia|split; [exact H8|right; exact H7]]|].
  destruct (N.lt_ge_cases v (2 ^ 63)) as [H9|H9]; [exists 8%nat; cbn; split; [lia|split; [exact H9|right; exact H8]]|].
  exists 9%nat. cbn. split; [lia|split; [|right; exact H9]].
  change (2 ^ 70) with 1180591620717411303424. lia.
Qed.

(** C18: the size function predicts the appended length, for every uint64. *)
Theorem size_append_varuint : forall v, v < two64 ->
  size_varuint v = len (append_varuint v).
Proof.
  intros v Hv. destruct (varuint_class v Hv) as (k & Hk & Hup & Hlo).
  rewrite (size_varuint_k v k Hup Hlo).
  rewrite (append_varuint_length_k v k Hk Hup Hlo). reflexivity.
Qed.

(** Standard protobuf base-128 varint: little-endian 7-bit groups, continuation
    bit on every byte but the last, minimal length (no trailing zero group). *)
Inductive pb_varint : N -> bytes -> Prop :=
| pbv_last : forall v, v < 128 -> pb_varint v [v]
| pbv_more : forall v bs, 128 <= v -> pb_varint (v / 128) bs ->
             pb_varint v ((v mod 128 + 128) :: bs).

Lemma append_fuel_canonical : forall fuel v,
  v < 128 ^ N.of_nat (S fuel) -> pb_varint v (append_varuint_fuel fuel v).
Proof.
  induction fuel as [|f IH]; intros v Hv.
  - cbn [append_varuint_fuel]. change (128 ^ N.of_nat 1) with 128 in Hv.
    rewrite N.mod_small by lia. constructor. exact Hv.
  - cbn [append_varuint_fuel]. destruct (v <? 128) eqn:Hlt.
    + apply N.ltb_lt in Hlt. constructor. exact Hlt.
    + apply N.ltb_ge in Hlt. constructor; [exact Hlt|]. apply IH.
      replace (N.of_nat (S (S f))) with (1 + N.of_nat (S f)) in Hv by lia.
      rewrite N.pow_add_r in Hv. change (128 ^ 1) with 128 in Hv.
      apply N.div_lt_upper_bound; lia.
Qed.

(** C18: what AppendVarUint writes is the standard protobuf varint. *)
Theorem append_varuint_canonical : forall v, v < two64 ->
  pb_varint v (append_varuint v).
Proof.
  intros v Hv. apply append_fuel_canonical.
  change (128 ^ N.of_nat 10) with 1180591620717411303424. unfold two64 in Hv. lia.
Qed.

(** The protobuf varint of a value is unique, so agreement is equality. *)
Lemma pb_varint_unique : forall v b1, pb_varint v b1 -> forall b2, pb_varint v b2 -> b1 = b2.
Proof.
  induction 1 as [v Hv|v bs Hv H IH]; intros b2 H2; inversion H2; subst; try lia; auto.
  f_equal. apply IH. assumption.
Qed.

Lemma pb_varint_bytes_ok : forall v bs, pb_varint v bs -> bytes_ok bs.
Proof.
  induction 1 as [v Hv|v bs Hv H IH]; constructor; auto; unfold byte_ok.
  - lia.
  - pose proof (N.mod_lt v 128 ltac:(lia)). lia.
Qed.

Lemma append_varuint_bytes_ok v : v < two64 -> bytes_ok (append_varuint v).
Proof. intros. eapply pb_varint_bytes_ok, append_varuint_canonical; assumption. Qed.

(** ** Zig-zag *)

Open Scope Z_scope.

Lemma shiftr63_neg v : - two63Z <= v < 0 -> Z.shiftr v 63 = -1.
Proof.
  intros H. rewrite Z.shiftr_div_pow2 by lia.
  change (2 ^ 63) with two63Z. unfold two63Z in *.
  symmetry. apply Z.div_unique with (r := v + 9223372036854775808); lia.
Qed.
Lemma shiftr63_pos v : 0 <= v < two63Z -> Z.shiftr v 63 = 0.
Proof.
  intros H. rewrite Z.shiftr_div_pow2 by lia.
  change (2 ^ 63) with two63Z. apply Z.div_small. lia.
Qed.

(** arithmetic reading of ZigZag: non-negative numbers are doubled, negative
    ones map to the odd codes. *)
Lemma zigzag_arith v : int64_ok v ->
  zigzag v = Z.to_N (if v <? 0 then - 2 * v - 1 else 2 * v).
Proof.
  intros Hv. unfold int64_ok in Hv. unfold zigzag, u64.
  rewrite Z.shiftl_mul_pow2 by lia. change (2 ^ 1) with 2.
  destruct (v <? 0) eqn:Hs.
  - apply Z.ltb_lt in Hs. rewrite shiftr63_neg by lia.
    rewrite Z.lxor_m1_r. unfold Z.lnot.
    f_equal. unfold two64Z, two63Z in *. rewrite Z.mod_small; lia.
  - apply Z.ltb_ge in Hs. rewrite shiftr63_pos by lia.
    rewrite Z.lxor_0_r. f_equal. unfold two64Z, two63Z in *. rewrite Z.mod_small; lia.
Qed.

Lemma zagzig_arith u :
  zagzig u = (if N.even u then Z.of_N (u / 2) else - Z.of_N (u / 2) - 1).
Proof.
  unfold zagzig. rewrite N.shiftr_div_pow2. change (2 ^ 1)%N with 2%N.
  change 1%N with (N.ones 1). rewrite N.land_ones. change (2 ^ 1)%N with 2%N.
  destruct (N.even u) eqn:He.
  - apply N.even_spec in He. destruct He as [m ->].
    rewrite N.mul_comm, N.mod_mul by lia. cbn [Z.of_N Z.opp]. rewrite Z.lxor_0_r. reflexivity.
  - assert (Ho : N.odd u = true) by (rewrite <- N.negb_even, He; reflexivity).
    apply N.odd_spec in Ho. destruct Ho as [m ->].
    replace ((2 * m + 1) mod 2)%N with 1%N.
    2:{ rewrite N.add_comm, N.mul_comm, N.mod_add by lia. reflexivity. }
    change (- Z.of_N 1) with (-1). rewrite Z.lxor_m1_r. unfold Z.lnot. lia.
Qed.

Lemma zigzag_range v : int64_ok v -> (zigzag v < two64)%N.
Proof.
  intros Hv. rewrite zigzag_arith by exact Hv. unfold int64_ok, two63Z, two64 in *.
  destruct (v <? 0) eqn:Hs; [apply Z.ltb_lt in Hs|apply Z.ltb_ge in Hs]; lia.
Qed.

Lemma zagzig_range u : (u < two64)%N -> int64_ok (zagzig u).
Proof.
  intros Hu. rewrite zagzig_arith. unfold int64_ok, two63Z, two64 in *.
  assert (u / 2 < 9223372036854775808)%N by (apply N.div_lt_upper_bound; lia).
  destruct (N.even u); lia.
Qed.

(** C18: zig-zag is a bijection between int64 and uint64. *)
Theorem zagzig_zigzag : forall v, int64_ok v -> zagzig (zigzag v) = v.
Proof.
  intros v Hv. rewrite zagzig_arith, zigzag_arith by exact Hv.
  unfold int64_ok, two63Z in Hv.
  destruct (v <? 0) eqn:Hs; [apply Z.ltb_lt in Hs|apply Z.ltb_ge in Hs].
  - replace (Z.to_N (-2 * v - 1)) with (2 * Z.to_N (- v - 1) + 1)%N by lia.
    rewrite N.add_comm, N.even_add_mul_2. cbn [N.even].
    replace ((2 * Z.to_N (- v - 1) + 1) / 2)%N with (Z.to_N (- v - 1)).
    2:{ apply N.div_unique with (r := 1%N); lia. }
    lia.
  - replace (Z.to_N (2 * v)) with (2 * Z.to_N v)%N by lia.
    rewrite N.even_mul. cbn [N.even orb].
    rewrite N.mul_comm, N.div_mul by lia. lia.
Qed.

Theorem zigzag_zagzig : forall u, (u < two64)%N -> zigzag (zagzig u) = u.
Proof.
  intros u Hu. rewrite zigzag_arith by (apply zagzig_range; exact Hu).
  rewrite zagzig_arith. pose proof (N.div_mod u 2 ltac:(lia)) as Hdm.
  destruct (N.even u) eqn:He.
  - apply N.even_spec in He. destruct He as [m ->].
    rewrite N.mul_comm, N.div_mul by lia.
    replace (Z.of_N m <? 0) with false by (symmetry; apply Z.ltb_ge; lia). lia.
  - assert (Ho : N.odd u = true) by (rewrite <- N.negb_even, He; reflexivity).
    apply N.odd_spec in Ho. destruct Ho as [m ->].
    replace ((2 * m + 1) / 2)%N with m by (apply N.div_unique with (r := 1%N); lia).
    replace (- Z.of_N m - 1 <? 0) with true by (symmetry; apply Z.ltb_lt; lia). lia.
Qed.

(** C18: magnitudes below 2^(7k-1) get codes below 2^(7k), i.e. at most k bytes. *)
Theorem zigzag_magnitude : forall v k,
  (1 <= k <= 9)%nat ->
  - 2 ^ (7 * Z.of_nat k - 1) <= v < 2 ^ (7 * Z.of_nat k - 1) ->
  (zigzag v < 2 ^ (7 * N.of_nat k))%N.
Proof.
  intros v k Hk Hv.
  assert (Hp : 2 ^ (7 * Z.of_nat k) = 2 * 2 ^ (7 * Z.of_nat k - 1)).
  { replace (7 * Z.of_nat k) with (1 + (7 * Z.of_nat k - 1)) at 1 by lia.
    rewrite Z.pow_add_r by lia. reflexivity. }
  assert (Hle : 2 ^ (7 * Z.of_nat k - 1) <= 2 ^ 62) by (apply Z.pow_le_mono_r; lia).
  assert (Hok : int64_ok v).
  { unfold int64_ok, two63Z. change (2 ^ 62) with 4611686018427387904 in Hle. lia. }
  rewrite zigzag_arith by exact Hok.
  assert (E : Z.of_N (2 ^ (7 * N.of_nat k)) = 2 ^ (7 * Z.of_nat k)).
  { rewrite N2Z.inj_pow. f_equal. lia. }
  apply N2Z.inj_lt. rewrite E, Hp.
  destruct (v <? 0) eqn:Hs; [apply Z.ltb_lt in Hs|apply Z.ltb_ge in Hs]; rewrite Z2N.id; lia.
Qed.

Lemma read_append_varint : forall v rest, int64_ok v ->
  read_varint (append_varint v ++ rest) = (v, Z.of_N (len (append_varint v))).
Proof.
  intros v rest Hv. unfold read_varint, append_varint.
  rewrite read_append_varuint by (apply zigzag_range; exact Hv).
  rewrite zagzig_zigzag by exact Hv. reflexivity.
Qed.

Lemma size_append_varint : forall v, int64_ok v ->
  size_varint v = len (append_varint v).
Proof.
  intros. unfold size_varint, append_varint. apply size_append_varuint, zigzag_range. assumption.
Qed.
