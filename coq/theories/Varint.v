(** Model of plenccore/varints.go and encoding/binary.Uvarint. *)
From Plenc Require Import Base.
Open Scope N_scope.

(** AppendVarUint:
      for v >= 0x80 { data = append(data, byte(v)|0x80); v >>= 7 }
      return append(data, byte(v))
    [byte(v)|0x80] is [v mod 128 + 128]; the loop runs at most 9 times for a
    64-bit value, so 9 is the fuel; the fuel-exhausted arm emits [byte(v)]. *)
Fixpoint append_varuint_fuel (fuel : nat) (v : N) : bytes :=
  match fuel with
  | O => [v mod 256]
  | S f => if v <? 128 then [v] else (v mod 128 + 128) :: append_varuint_fuel f (v / 128)
  end.
Definition append_varuint (v : N) : bytes := append_varuint_fuel 9 v.

(** binary.Uvarint, transliterated.  Returns (value, n) with Go's conventions:
    n = 0 buffer too small, n < 0 overflow (value is 0 in both cases). *)
Fixpoint uvarint_go (buf : bytes) (i : nat) (x : N) : N * Z :=
  match buf with
  | [] => (0, 0%Z)
  | b :: rest =>
    if Nat.eqb i 10 then (0, (- Z.of_nat (i + 1))%Z)
    else if b <? 128 then
      if Nat.eqb i 9 && (1 <? b) then (0, (- Z.of_nat (i + 1))%Z)
      else (x + b * 2 ^ (7 * N.of_nat i), Z.of_nat (i + 1))
    else uvarint_go rest (S i) (x + (b - 128) * 2 ^ (7 * N.of_nat i))
  end.
Definition read_varuint (buf : bytes) : N * Z := uvarint_go buf 0 0.

(** SizeVarUint: if v < 0x80 {1} else (bits.Len64(v)+6)/7.  [N.size] is Len64. *)
Definition size_varuint (v : N) : N :=
  if v <? 128 then 1 else (N.size v + 6) / 7.

(** ZigZag: uint64((v << 1) ^ (v >> 63)) on int64, with the shifts as Go
    performs them (arithmetic right shift; left shift wraps at 64 bits). *)
Definition zigzag (v : Z) : N :=
  u64 (Z.lxor (Z.shiftl v 1) (Z.shiftr v 63)).
(** ZagZig: int64(v>>1) ^ -int64(v&1) *)
Definition zagzig (u : N) : Z :=
  Z.lxor (Z.of_N (N.shiftr u 1)) (- Z.of_N (N.land u 1)).

Definition append_varint (v : Z) : bytes := append_varuint (zigzag v).
Definition size_varint (v : Z) : N := size_varuint (zigzag v).
Definition read_varint (buf : bytes) : Z * Z :=
  let '(u, n) := read_varuint buf in (zagzig u, n).

(** int64 range *)
Definition int64_ok (v : Z) : Prop := (- two63Z <= v < two63Z)%Z.
Definition uint64_ok (v : N) : Prop := v < two64.
