(** C15: the reference rendering (and therefore, by [output_render], what the
    outputter writes for every call tree) is a document of the JSON grammar
    (RFC 8259: values, arrays, objects, string literals, insignificant white
    space, "," and ":" separators) and the grammar derivation yields the call
    tree back: member names and strings through the literal automaton [drun]
    (no raw control byte, no bare quote, every escape legal), containers
    element for element.  Number / boolean / time tokens are strconv's and
    time's business: they are required to be JSON literals ([valid_tok]). *)
From Plenc Require Import Base Output OutputProofs.
Open Scope N_scope.

Section Grammar.
  Variable valid_tok : bytes -> Prop.

  Definition is_ws (c : N) : Prop := c = 32 \/ c = 10 \/ c = 13 \/ c = 9.
  Definition ws (w : bytes) : Prop := Forall is_ws w.

  (** a string literal denoting the byte string [s] *)
  Definition jstring (text s : bytes) : Prop :=
    exists body, text = [34] ++ body ++ [34] /\ drun DNormal body = Some (DNormal, s).

  Inductive jvalue : bytes -> jt -> Prop :=
  | jv_tok b : valid_tok b -> jvalue b (TScalar (STok b))
  | jv_str text s : jstring text s -> jvalue text (TScalar (SStr s))
  | jv_arr_empty w : ws w -> jvalue ([91] ++ w ++ [93]) (TArr [])
  | jv_arr items t l : jelems items (t :: l) -> jvalue ([91] ++ items ++ [93]) (TArr (t :: l))
  | jv_obj_empty w : ws w -> jvalue ([123] ++ w ++ [125]) (TObj [])
  | jv_obj items m l : jmembers items (m :: l) -> jvalue ([123] ++ items ++ [125]) (TObj (m :: l))
  with jelems : bytes -> list jt -> Prop :=
  | je_one w1 v w2 t : ws w1 -> jvalue v t -> ws w2 -> jelems (w1 ++ v ++ w2) [t]
  | je_cons w1 v w2 rest t l : ws w1 -> jvalue v t -> ws w2 -> jelems rest l ->
      jelems (w1 ++ v ++ w2 ++ [44] ++ rest) (t :: l)
  with jmembers : bytes -> list (bytes * jt) -> Prop :=
  | jm_one w1 k name w2 w3 v w4 t : ws w1 -> jstring k name -> ws w2 -> ws w3 -> jvalue v t -> ws w4 ->
      jmembers (w1 ++ k ++ w2 ++ [58] ++ w3 ++ v ++ w4) [(name, t)]
  | jm_cons w1 k name w2 w3 v w4 rest t l : ws w1 -> jstring k name -> ws w2 -> ws w3 -> jvalue v t -> ws w4 ->
      jmembers rest l ->
      jmembers (w1 ++ k ++ w2 ++ [58] ++ w3 ++ v ++ w4 ++ [44] ++ rest) ((name, t) :: l).

  Definition jdoc (text : bytes) (t : jt) : Prop :=
    exists w1 v w2, text = w1 ++ v ++ w2 /\ ws w1 /\ jvalue v t /\ ws w2.

  (** every scalar token of the tree is a JSON literal; every string is a byte string *)
  Fixpoint toks_ok (t : jt) : Prop :=
    match t with
    | TScalar (STok b) => valid_tok b
    | TScalar (SStr s) => Forall (fun c => c < 256) s
    | TArr l => (fix all (l : list jt) : Prop := match l with [] => True | x :: r => toks_ok x /\ all r end) l
    | TObj l => (fix all (l : list (bytes * jt)) : Prop :=
                   match l with [] => True | kx :: r => (Forall (fun c => c < 256) (fst kx) /\ toks_ok (snd kx)) /\ all r end) l
    end.

  Lemma ws_indent d : ws (indent d).
  Proof.
    unfold indent, ws. induction d as [|d IH]; cbn [repeat concat]; [constructor|].
    constructor; [left; reflexivity|]. constructor; [left; reflexivity|exact IH].
  Qed.
  Lemma ws_app a b : ws a -> ws b -> ws (a ++ b).
  Proof. unfold ws. intros. apply Forall_app. split; assumption. Qed.
  Lemma ws_nl : ws [10].
  Proof. constructor; [right; left; reflexivity|constructor]. Qed.
  Lemma ws_sp : ws [32].
  Proof. constructor; [left; reflexivity|constructor]. Qed.
  Lemma ws_nil : ws [].
  Proof. constructor. Qed.

  Lemma jstring_append s : Forall (fun c => c < 256) s -> jstring (append_string s) s.
  Proof. intros H. exists (flat_map escape_byte s). split; [reflexivity|apply escape_inverse; exact H]. Qed.

  (** the value part of a rendering: everything after the leading indentation *)
  Definition body (d : nat) (t : jt) : bytes :=
    match t with
    | TScalar s => scal_bytes s
    | TArr l => [91; 10] ++ join_items (map (render (S d) false) l) ++ indent d ++ [93]
    | TObj l => [123; 10]
                ++ join_items (map (fun kx => indent (S d) ++ append_string (fst kx) ++ [58; 32] ++ render (S d) true (snd kx)) l)
                ++ indent d ++ [125]
    end.
  Lemma render_body d inf t : render d inf t = (if inf then [] else indent d) ++ body d t.
  Proof. destruct t; reflexivity. Qed.

  (** joined elements, each of them indentation followed by a value *)
  Lemma join_elems : forall d (l : list jt) t0,
    Forall (fun t => toks_ok t -> jvalue (body (S d) t) t) (t0 :: l) ->
    (toks_ok t0 /\ (fix all (l : list jt) : Prop := match l with [] => True | x :: r => toks_ok x /\ all r end) l) ->
    jelems ([10] ++ join_items (map (render (S d) false) (t0 :: l)) ++ indent d) (t0 :: l).
  Proof.
    intros d l. induction l as [|t1 l IH]; intros t0 Hall [Hok0 Hokl].
    - inversion Hall as [|? ? H0 _]; subst. cbn [map join_items]. rewrite render_body.
      match goal with |- ?R ?x _ => replace x with (([10] ++ indent (S d)) ++ body (S d) t0 ++ ([10] ++ indent d))
        by (cbn [app]; rewrite <- ?app_assoc; cbn [app]; reflexivity) end.
      apply (je_one ([10] ++ indent (S d)) (body (S d) t0) ([10] ++ indent d)); [apply ws_app; [apply ws_nl|apply ws_indent]|apply H0; exact Hok0|apply ws_app; [apply ws_nl|apply ws_indent]].
    - inversion Hall as [|? ? H0 Hall']; subst. destruct Hokl as [Hok1 Hokl].
      specialize (IH t1 Hall' (conj Hok1 Hokl)).
      change (map (render (S d) false) (t0 :: t1 :: l)) with (render (S d) false t0 :: map (render (S d) false) (t1 :: l)).
      change (join_items (render (S d) false t0 :: map (render (S d) false) (t1 :: l)))
        with (render (S d) false t0 ++ [44; 10] ++ join_items (map (render (S d) false) (t1 :: l))).
      rewrite render_body.
      match goal with |- ?R ?x _ => replace x with (([10] ++ indent (S d)) ++ body (S d) t0 ++ [] ++ [44] ++ ([10] ++ join_items (map (render (S d) false) (t1 :: l)) ++ indent d))
        by (cbn [app]; rewrite <- ?app_assoc; cbn [app]; reflexivity) end.
      apply (je_cons ([10] ++ indent (S d)) (body (S d) t0) [] ([10] ++ join_items (map (render (S d) false) (t1 :: l)) ++ indent d)); [apply ws_app; [apply ws_nl|apply ws_indent]|apply H0; exact Hok0|apply ws_nil|exact IH].
  Qed.

  Definition member_render (d : nat) (kx : bytes * jt) : bytes :=
    indent (S d) ++ append_string (fst kx) ++ [58; 32] ++ render (S d) true (snd kx).

  Lemma join_members : forall d (l : list (bytes * jt)) m0,
    Forall (fun kx => toks_ok (snd kx) -> jvalue (body (S d) (snd kx)) (snd kx)) (m0 :: l) ->
    ((Forall (fun c => c < 256) (fst m0) /\ toks_ok (snd m0)) /\
     (fix all (l : list (bytes * jt)) : Prop :=
        match l with [] => True | kx :: r => (Forall (fun c => c < 256) (fst kx) /\ toks_ok (snd kx)) /\ all r end) l) ->
    jmembers ([10] ++ join_items (map (member_render d) (m0 :: l)) ++ indent d) (m0 :: l).
  Proof.
    intros d l. induction l as [|m1 l IH]; intros [k0 t0] Hall [[Hk0 Hok0] Hokl]; cbn [fst snd] in *.
    - inversion Hall as [|? ? H0 _]; subst. cbn [map join_items]. unfold member_render. cbn [fst snd]. rewrite render_body.
      match goal with |- ?R ?x _ => replace x with (([10] ++ indent (S d)) ++ append_string k0 ++ [] ++ [58] ++ [32] ++ body (S d) t0 ++ ([10] ++ indent d))
        by (cbn [app]; rewrite <- ?app_assoc; cbn [app]; reflexivity) end.
      apply (jm_one ([10] ++ indent (S d)) (append_string k0) k0 [] [32] (body (S d) t0) ([10] ++ indent d)); [apply ws_app; [apply ws_nl|apply ws_indent]|apply jstring_append; exact Hk0|apply ws_nil|apply ws_sp
                    |apply H0; exact Hok0|apply ws_app; [apply ws_nl|apply ws_indent]].
    - inversion Hall as [|? ? H0 Hall']; subst. destruct Hokl as [Hok1 Hokl].
      specialize (IH m1 Hall' (conj Hok1 Hokl)).
      change (map (member_render d) ((k0, t0) :: m1 :: l)) with (member_render d (k0, t0) :: map (member_render d) (m1 :: l)).
      change (join_items (member_render d (k0, t0) :: map (member_render d) (m1 :: l)))
        with (member_render d (k0, t0) ++ [44; 10] ++ join_items (map (member_render d) (m1 :: l))).
      unfold member_render at 1. cbn [fst snd]. rewrite render_body.
      match goal with |- ?R ?x _ => replace x with (([10] ++ indent (S d)) ++ append_string k0 ++ [] ++ [58] ++ [32] ++ body (S d) t0 ++ [] ++ [44]
              ++ ([10] ++ join_items (map (member_render d) (m1 :: l)) ++ indent d))
        by (cbn [app]; rewrite <- ?app_assoc; cbn [app]; reflexivity) end.
      apply (jm_cons ([10] ++ indent (S d)) (append_string k0) k0 [] [32] (body (S d) t0) [] ([10] ++ join_items (map (member_render d) (m1 :: l)) ++ indent d)); [apply ws_app; [apply ws_nl|apply ws_indent]|apply jstring_append; exact Hk0|apply ws_nil|apply ws_sp
                     |apply H0; exact Hok0|apply ws_nil|exact IH].
  Qed.

  (** the body of every rendering is a JSON value denoting the tree, at every depth *)
  Theorem body_is_json : forall t d, toks_ok t -> jvalue (body d t) t.
  Proof.
    induction t as [s|l IH|l IH] using jt_ind'; intros d Hok.
    - destruct s as [b|s]; cbn [body scal_bytes toks_ok] in *; [apply jv_tok; exact Hok|apply jv_str, jstring_append; exact Hok].
    - destruct l as [|t0 l].
      + cbn [body map join_items]. change ([91; 10] ++ [] ++ indent d ++ [93]) with ([91] ++ ([10] ++ indent d) ++ [93]).
        apply (jv_arr_empty ([10] ++ indent d)). apply ws_app; [apply ws_nl|apply ws_indent].
      + cbn [body]. replace ([91; 10] ++ join_items (map (render (S d) false) (t0 :: l)) ++ indent d ++ [93])
          with ([91] ++ ([10] ++ join_items (map (render (S d) false) (t0 :: l)) ++ indent d) ++ [93]) by (rewrite <- !app_assoc; reflexivity).
        apply jv_arr. apply join_elems; [|exact Hok].
        rewrite Forall_forall in *. intros x Hx Hokx. apply IH; assumption.
    - destruct l as [|m0 l].
      + cbn [body map join_items]. change ([123; 10] ++ [] ++ indent d ++ [125]) with ([123] ++ ([10] ++ indent d) ++ [125]).
        apply (jv_obj_empty ([10] ++ indent d)). apply ws_app; [apply ws_nl|apply ws_indent].
      + cbn [body]. fold (member_render d).
        match goal with |- jvalue ?x _ => replace x
          with ([123] ++ ([10] ++ join_items (map (member_render d) (m0 :: l)) ++ indent d) ++ [125])
          by (cbn [app]; rewrite <- ?app_assoc; cbn [app]; reflexivity) end.
        apply (jv_obj ([10] ++ join_items (map (member_render d) (m0 :: l)) ++ indent d)). apply join_members; [|exact Hok].
        rewrite Forall_forall in *. intros x Hx Hokx. apply IH; assumption.
  Qed.

  (** what a new outputter writes for a call tree is a JSON document denoting that tree *)
  Theorem output_is_json : forall t, toks_ok t ->
    exists text, (do j <- o_run jout_init (ops_of t); o_done j) = Ok text /\ jdoc text t.
  Proof.
    intros t Hok. exists (render 0 false t ++ [10]). split; [apply output_render|].
    exists [], (body 0 t), [10]. rewrite render_body. cbn [indent repeat concat app].
    repeat split; [apply ws_nil|apply body_is_json; exact Hok|apply ws_nl].
  Qed.
End Grammar.
