(** C13: walking Marshal's output with the type's Descriptor emits exactly the
    Outputter calls of the value, for structs (any nesting), pointers, packed
    and counted slices and every scalar leaf.  Maps, the protobuf forms, the
    null.* wrappers and narrow `flat` integers are outside this fragment (the
    last three are known findings D31 / D17d or are decided by the correspondence). *)
From Plenc Require Import Base Varint Wire VarintProofs WireProofs JsonAny Codec SizeProofs DecBase
  RoundTripBase RoundTrip Descriptor DescProofs JsonRoundTrip Output OutputProofs JsonWalk.
Open Scope N_scope.

(** what the walker emits for a value that is not in the data at all (the
    omitted value of a map entry): null for pointer / null.* positions,
    otherwise the walk of no bytes *)
Definition zev (c : codec) : list ev :=
  match c with
  | CBool => [EvBool false]
  | CInt _ | CFlat _ => [EvInt 0]
  | CUint _ => [EvUint 0]
  | CF32 => [EvF32 0]
  | CF64 => [EvF64 0]
  | CString | CBytes => [EvStr []]
  | CTime _ => [EvTime zero_sec 0]
  | CStruct _ _ _ => [EvStartObj; EvEndObj]
  | CSliceVar _ | CSliceFix _ | CSliceLen _ => [EvStartArr; EvEndArr]
  | CPtr _ | CNull _ => [EvRaw (ascii "null")]
  | CMap kc _ => match kc with CString => [EvStartObj; EvEndObj] | _ => [EvStartArr; EvEndArr] end
  | CJMap => [EvStartObj; EvEndObj]
  | CJArr => [EvStartArr; EvEndArr]
  | _ => []
  end.


(** ** the Outputter calls of a value *)
Fixpoint vev (c : codec) (v : val) {struct c} : list ev :=
  match c, v with
  | CBool, VBool b => [EvBool b]
  | CInt _, VInt z => [EvInt z]
  | CUint _, VInt z => [EvUint (Z.to_N z)]
  | CFlat _, VInt z => [EvInt z]
  | CF32, VF32 b => [EvF32 b]
  | CF64, VF64 b => [EvF64 b]
  | (CString | CBytes), VStr s => [EvStr s]
  | CTime _, VTime s n => [EvTime s n]
  | CPtr c', VPtr (Some p) => vev c' p
  | CNull c', VNull true p => vev c' p
  | CStruct _ _ fs, VStruct vs =>
    [EvStartObj]
    ++ flat_map (fun f => if omit (f_codec f) (slot vs (f_slot f)) then []
                          else EvName (f_name f) :: vev (f_codec f) (slot vs (f_slot f))) fs
    ++ [EvEndObj]
  | (CSliceVar c' | CSliceFix c' | CSliceLen c'), VSlice l =>
    [EvStartArr] ++ flat_map (vev c') l ++ [EvEndArr]
  | CJMap, VJson _ (JObj l) => jev (JObj l)
  | CJArr, VJson _ (JArr l) => jev (JArr l)
  | CMap kc vc, VMap (Some es) =>
    match kc with
    | CString =>
      (* string-keyed: an object; an omitted value shows as the zero / null token *)
      [EvStartObj]
      ++ flat_map (fun e => EvStr (str_of (fst e))
                            :: (if omit vc (snd e) then zev vc else vev vc (snd e))) es
      ++ [EvEndObj]
    | _ =>
      (* other keys: a list of {"key": k, "value": v} objects, omitted members absent *)
      [EvStartArr]
      ++ flat_map (fun e => [EvStartObj]
                            ++ (if omit kc (fst e) then [] else EvName (ascii "key") :: vev kc (fst e))
                            ++ (if omit vc (snd e) then [] else EvName (ascii "value") :: vev vc (snd e))
                            ++ [EvEndObj]) es
      ++ [EvEndArr]
    end
  | _, _ => []
  end.

(** a key codec whose descriptor says FieldTypeString *)
Fixpoint strkey (c : codec) : bool :=
  match c with CString | CBytes => true | CPtr c' | CNull c' => strkey c' | _ => false end.

(** ** the fragment *)
Fixpoint walk_ok (c : codec) {struct c} : Prop :=
  match c with
  | CBool | CF32 | CF64 | CString | CBytes | CTime false => True
  | CInt b | CUint b => bits_ok b
  | CFlat b => b = 64
  | CPtr c' | CNull c' => walk_ok c'
  | CStruct _ n fs =>
    (fix all (l : list (fld codec)) : Prop :=
       match l with
       | [] => True
       | f :: r => (walk_ok (f_codec f) /\ (0 <= f_index f < 2305843009213693952)%Z /\ (f_slot f < n)%nat) /\ all r
       end) fs
    /\ NoDup (map (fun f => f_index f) fs) /\ NoDup (map (fun f => f_slot f) fs)
  | CSliceVar c' => plain_varint0 c' /\ walk_ok c'
  | CSliceFix c' => plain_fixed c'
  | CSliceLen c' => walk_ok c' /\ wire c' = WTLength
  | CMap kc vc => walk_ok kc /\ walk_ok vc /\ (kc = CString \/ strkey kc = false)
  | CJMap | CJArr => True
  | _ => False
  end.

Lemma walk_ok_top : forall c, walk_ok c -> top_ok c.
Proof. destruct c; cbn [walk_ok top_ok]; auto. Qed.

Lemma pv0_pv c : plain_varint0 c -> plain_varint c.
Proof. destruct c; cbn [plain_varint plain_varint0]; auto; contradiction. Qed.

Lemma walk_ok_rt : forall c, walk_ok c -> rt_ok c.
Proof.
  induction c as [ |b|b|b| | | | |compat| |c IH|c IH|nm n fs IH|c IH|c IH|c IH|c IH|kc vc IHk IHv|kc vc IHk IHv| | | ]
    using codec_ind'; cbn [walk_ok rt_ok]; intros H; auto; try contradiction.
  - subst. unfold bits_ok. auto.
  - split; [apply IH; exact H|apply walk_ok_top; exact H].
  - split; [apply IH; exact H|apply walk_ok_top; exact H].
  - destruct H as (Hall & H1 & H2). split; [|split; assumption]. clear H1 H2.
    induction IH as [|f r Hf Hr IHr]; [exact I|]. destruct Hall as [(A & B & C) Hall]. split; [split; auto|apply IHr; exact Hall].
  - apply pv0_pv, H.
  - destruct H as [A B]. split; [apply IH; exact A|]. split; [exact B|apply walk_ok_top; exact A].
  - destruct H as (A & B & _). repeat split; [apply IHk; exact A|apply IHv; exact B|apply walk_ok_top; exact A|apply walk_ok_top; exact B].
Qed.

(** container lengths fit Go's int *)
Fixpoint wkv (c : codec) (v : val) {struct c} : Prop :=
  match c, v with
  | CPtr c', VPtr (Some p) => wkv c' p
  | CNull c', VNull _ p => wkv c' p
  | CStruct _ _ fs, VStruct vs =>
    (fix all (l : list (fld codec)) : Prop :=
       match l with [] => True | f :: r => wkv (f_codec f) (slot vs (f_slot f)) /\ all r end) fs
  | CSliceLen c', VSlice l => N.of_nat (length l) < two63 /\ Forall (wkv c') l
  | CMap kc vc, VMap (Some es) =>
    N.of_nat (length es) < two63 /\ Forall (fun e => wkv kc (fst e) /\ wkv vc (snd e)) es
  | (CJMap | CJArr), VJson _ j => jcount j
  | _, _ => True
  end.

(** ** the root's index, name and explicit flag do not influence the walk *)
Lemma walk_with_field i n d data : walk (with_field i n d) data = walk d data.
Proof. destruct d. reflexivity. Qed.
Lemma walk_with_explicit d data : walk (with_explicit d) data = walk d data.
Proof. destruct d. reflexivity. Qed.

(** ** one field through readAsStruct *)
Lemma walk_fields_unfold walkd es f rest consumed hk hv acc : rest <> [] ->
  walk_fields walkd es false (S f) rest consumed hk hv acc =
  (let '(wt, index, n) := read_tag rest in
   if (n <=? 0)%Z then werr acc else
   match go_drop "Descriptor.readAsStruct" (Z.to_N n) rest with
   | Ok rest1 =>
     let c1 := consumed + Z.to_N n in
     match find_elem es index with
     | None =>
       match skip rest1 wt with
       | Ok k => match go_drop "Descriptor.readAsStruct" k rest1 with
                 | Ok rest2 => walk_fields walkd es false f rest2 (c1 + k) hk hv acc
                 | r => wfail acc r
                 end
       | r => wfail acc r
       end
     | Some elt =>
       let body (fdata after : bytes) (c2 : N) :=
         let pre := acc ++ [EvName (d_name elt)] in
         let w := walkd elt fdata in
         match w_out w with
         | Ok used =>
           match go_drop "Descriptor.readAsStruct" used after with
           | Ok rest3 => walk_fields walkd es false f rest3 (c2 + used) hk hv (pre ++ w_ev w)
           | r => wfail (pre ++ w_ev w) r
           end
         | r => mkw (pre ++ w_ev w) (match r with Ok _ => Err | x => x end)
         end in
       if wt =? WTLength then
         let '(l, k) := read_varuint rest1 in
         if (k <=? 0)%Z then werr acc else
         match go_drop "Descriptor.readAsStruct" (Z.to_N k) rest1 with
         | Ok rest2 =>
           if len rest2 <? l then werr acc else
           match go_take "Descriptor.readAsStruct" l rest2 with
           | Ok fdata => body fdata rest2 (c1 + Z.to_N k)
           | r => wfail acc r
           end
         | r => wfail acc r
         end
       else body rest1 rest1 c1
     end
   | r => wfail acc r
   end).
Proof.
  intros H. destruct rest as [|b0 rest0]; [congruence|]. cbn [walk_fields andb].
  destruct (read_tag (b0 :: rest0)) as [[wt index] n]. destruct (n <=? 0)%Z; [reflexivity|].
  destruct (go_drop "Descriptor.readAsStruct" (Z.to_N n) (b0 :: rest0)); try reflexivity.
  destruct (find_elem es index); [|reflexivity].
  rewrite !Bool.orb_false_r. reflexivity.
Qed.

(** [WKc c]: the walk of codec [c]'s descriptor over [c]'s own encoding, in the
    form the wire type calls for (as [RTc] in RoundTrip.v) *)
Definition WKc (c : codec) : Prop :=
  forall v d, descriptor_of c = Ok d -> wfv c v -> fits c v -> wkv c v ->
  (wire c = WTLength -> walk d (enc c v []) = wok (vev c v) (len (enc c v []))) /\
  (wire c <> WTLength -> forall more, walk d (enc c v [] ++ more) = wok (vev c v) (len (enc c v []))).

Section FieldWalk.
  Variable walkd : desc -> bytes -> wres.
  Variable es : list desc.

  Lemma field_walk_step : forall c idx name d0 fv more consumed hk hv acc fuel,
    rt_ok c -> top_ok c -> (0 <= idx < 2305843009213693952)%Z ->
    find_elem es idx = Some (with_field idx name d0) ->
    (forall b, walkd (with_field idx name d0) b = walk d0 b) ->
    descriptor_of c = Ok d0 -> WKc c -> wfv c fv -> fits c fv -> wkv c fv ->
    let e := enc c fv (field_tag c idx) in
    (length (e ++ more) < S fuel)%nat ->
    walk_fields walkd es false (S fuel) (e ++ more) consumed hk hv acc
    = walk_fields walkd es false fuel more (consumed + len e) hk hv (acc ++ EvName name :: vev c fv).
  Proof.
    intros c idx name d0 fv more consumed hk hv acc fuel Hok Htop Hidx Hfind Hwd Hd Hwk Hw Hf Hk e Hfuel.
    set (tg := field_tag c idx) in *.
    destruct (tagged_enc_shape c Hok Htop fv idx Hw Hf) as [ShL ShS]. fold tg in ShL, ShS.
    destruct (Hwk fv d0 Hd Hw Hf Hk) as [WkL WkS].
    pose proof (field_tag_nonempty c idx) as Htg. fold tg in Htg.
    assert (Hname : d_name (with_field idx name d0) = name) by (destruct d0; reflexivity).
    assert (Hstep : forall payload, e = tg ++ payload ->
              walk_fields walkd es false (S fuel) (e ++ more) consumed hk hv acc =
              (let body (fdata after : bytes) (c2 : N) :=
                 let pre := acc ++ [EvName name] in
                 let w := walk d0 fdata in
                 match w_out w with
                 | Ok used =>
                   match go_drop "Descriptor.readAsStruct" used after with
                   | Ok rest3 => walk_fields walkd es false fuel rest3 (c2 + used) hk hv (pre ++ w_ev w)
                   | r => wfail (pre ++ w_ev w) r
                   end
                 | r => mkw (pre ++ w_ev w) (match r with Ok _ => Err | x => x end)
                 end in
               if wire c =? WTLength then
                 let '(l, k) := read_varuint (payload ++ more) in
                 if (k <=? 0)%Z then werr acc else
                 match go_drop "Descriptor.readAsStruct" (Z.to_N k) (payload ++ more) with
                 | Ok rest2 =>
                   if len rest2 <? l then werr acc else
                   match go_take "Descriptor.readAsStruct" l rest2 with
                   | Ok fdata => body fdata rest2 (consumed + len tg + Z.to_N k)
                   | r => wfail acc r
                   end
                 | r => wfail acc r
                 end
               else body (payload ++ more) (payload ++ more) (consumed + len tg))).
    { intros payload Ee. rewrite Ee, <- app_assoc.
      rewrite walk_fields_unfold.
      2:{ intros E0. apply (f_equal (@length N)) in E0. rewrite app_length in E0. unfold len in Htg. cbn [length] in E0. lia. }
      unfold tg at 1. rewrite read_tag_field by exact Hidx. fold tg. cbv beta iota.
      replace (Z.of_N (len tg) <=? 0)%Z with false by (symmetry; apply Z.leb_gt; lia).
      rewrite N2Z.id, go_drop_app. rewrite Hfind. cbv zeta. rewrite Hname.
      destruct (wire c =? WTLength); [|rewrite Hwd; reflexivity].
      destruct (read_varuint (payload ++ more)) as [l k]. destruct (k <=? 0)%Z; [reflexivity|].
      destruct (go_drop "Descriptor.readAsStruct" (Z.to_N k) (payload ++ more)) as [r2| | | |]; try reflexivity.
      destruct (len r2 <? l); [reflexivity|].
      destruct (go_take "Descriptor.readAsStruct" l r2); try reflexivity. rewrite Hwd. reflexivity. }
    destruct (N.eq_dec (wire c) WTLength) as [Hwt|Hwt].
    - destruct (ShL Hwt) as [Ee Hlen]. rewrite (Hstep _ Ee). cbv zeta.
      replace (wire c =? WTLength) with true by (symmetry; apply N.eqb_eq; exact Hwt).
      rewrite <- app_assoc, read_append_varuint by exact Hlen.
      pose proof (append_varuint_length_bounds (len (enc c fv []))) as Hvb.
      replace (Z.of_N (len (append_varuint (len (enc c fv [])))) <=? 0)%Z with false by (symmetry; apply Z.leb_gt; lia).
      rewrite N2Z.id, go_drop_app.
      rewrite len_app. replace (len (enc c fv []) + len more <? len (enc c fv [])) with false by (symmetry; apply N.ltb_ge; lia).
      rewrite go_take_app. rewrite (WkL Hwt). cbn [w_out w_ev wok]. rewrite go_drop_app.
      rewrite <- app_assoc. cbn [app]. f_equal. unfold e. rewrite Ee, !len_app. lia.
    - pose proof (ShS Hwt) as Ee. rewrite (Hstep _ Ee). cbv zeta.
      replace (wire c =? WTLength) with false by (symmetry; apply N.eqb_neq; exact Hwt).
      rewrite (WkS Hwt more). cbn [w_out w_ev wok]. rewrite go_drop_app.
      rewrite <- app_assoc. cbn [app]. f_equal. unfold e. rewrite Ee, !len_app. lia.
  Qed.
End FieldWalk.

(** ** all fields of a struct *)
Definition fev (vs : list val) (f : fld codec) : list ev :=
  if omit (f_codec f) (slot vs (f_slot f)) then []
  else EvName (f_name f) :: vev (f_codec f) (slot vs (f_slot f)).

Definition subwalk : list desc -> desc -> bytes -> wres :=
  fix subwalk (l : list desc) (e : desc) (b : bytes) : wres :=
    match l with
    | [] => werr []
    | x :: r => if (d_index x =? d_index e)%Z then walk x b else subwalk r e b
    end.

Lemma subwalk_found : forall es idx elt b,
  find_elem es idx = Some elt -> subwalk es elt b = walk elt b.
Proof.
  induction es as [|x r IH]; intros idx elt b H; [discriminate|].
  unfold find_elem in H. cbn [find] in H. cbn [subwalk].
  destruct (d_index x =? idx)%Z eqn:E.
  - inversion H; subst. rewrite Z.eqb_refl. reflexivity.
  - fold (find_elem r idx) in H. pose proof (find_some _ _ H) as [_ Hi]. apply Z.eqb_eq in Hi.
    rewrite Hi, E. apply (IH idx); exact H.
Qed.

(** ** the walk of a map *)
Lemma walk_eq d data : walk d data =

  match walk_scalar d data with
  | Some w => w
  | None =>
    let 'Desc _ _ t _ es _ lt := d in
    if t =? FTSlice then
      let isobj := is_json_map d in
      let open_ := if isobj then EvStartObj else EvStartArr in
      let close_ := if isobj then EvEndObj else EvEndArr in
      match es with
      | [] => mkw [open_; close_] (Panic "Descriptor.readAsSlice d.Elements[0]")
      | elt :: _ =>
        let et := d_type elt in
        let inner :=
          if (et =? FTFloat32) || (et =? FTFloat64) || (et =? FTInt) || (et =? FTUint) || (et =? FTFlatInt) || (et =? FTBool) then
            walk_packed (fun e b => match es with e0 :: _ => walk e0 b | [] => werr [] end) elt (S (length data)) data 0 []
          else if (et =? FTStruct) || (et =? FTSlice) || (et =? FTString) || (et =? FTTime) then
            let '(count, n) := read_varuint data in
            if (n <? 0)%Z then werr [] else
            match go_drop "Descriptor.readAsSlice" (Z.to_N n) data with
            | Ok rest =>
              let cnt := if count <? two63 then count else 0 in
              walk_counted (fun e b => match es with e0 :: _ => walk e0 b | [] => werr [] end) elt (S (length data)) cnt rest (Z.to_N n) []
            | r => wfail [] r
            end
          else werr [] in
        mkw ([open_] ++ w_ev inner ++ [close_]) (w_out inner)
      end
    else if t =? FTStruct then
      let sub := (fix subwalk (l : list desc) (e : desc) (b : bytes) : wres :=
                    match l with
                    | [] => werr []
                    | x :: r => if (d_index x =? d_index e)%Z then walk x b else subwalk r e b
                    end) es in
      if is_json_map_entry d then
        walk_fields sub es true (S (length data)) data 0 false false []
      else if (lt =? LTMapEntry) && match es with k :: _ :: [] => negb (d_type k =? FTString) | _ => false end then
        let w := walk_fields sub es false (S (length data)) data 0 false false [] in
        mkw ([EvStartObj] ++ w_ev w ++ [EvEndObj]) (w_out w)
      else
        let w := walk_fields sub es false (S (length data)) data 0 false false [] in
        mkw ([EvStartObj] ++ w_ev w ++ [EvEndObj]) (w_out w)
    else if t =? FTJSONObject then walk_json (jfuel data) true data
    else if t =? FTJSONArray then walk_json (jfuel data) false data
    else werr []
  end.
Proof. destruct d. reflexivity. Qed.

Lemma walk_entry_obj nm kd' vd' body : d_type kd' = FTString -> d_explicit kd' = false ->
  walk (Desc 0 [] FTStruct nm [kd'; vd'] false LTMapEntry) body
  = walk_fields (subwalk [kd'; vd']) [kd'; vd'] true (S (length body)) body 0 false false [].
Proof.
  intros H Hx. rewrite walk_eq.
  change (walk_scalar (Desc 0 [] FTStruct nm [kd'; vd'] false LTMapEntry) body) with (@None wres). cbv beta iota.
  change (FTStruct =? FTSlice) with false. change (FTStruct =? FTStruct) with true. cbv iota.
  unfold is_json_map_entry. cbn [d_type d_logical d_elems length Nat.eqb]. rewrite H, Hx.
  change ((FTStruct =? FTStruct) && (LTMapEntry =? LTMapEntry) && true && ((FTString =? FTString) && negb false)) with true. cbv iota.
  reflexivity.
Qed.

Lemma walk_entry_pair nm kd' vd' body : (d_type kd' =? FTString) = false ->
  walk (Desc 0 [] FTStruct nm [kd'; vd'] false LTMapEntry) body
  = (let w := walk_fields (subwalk [kd'; vd']) [kd'; vd'] false (S (length body)) body 0 false false [] in
     mkw ([EvStartObj] ++ w_ev w ++ [EvEndObj]) (w_out w)).
Proof.
  intros H. rewrite walk_eq.
  change (walk_scalar (Desc 0 [] FTStruct nm [kd'; vd'] false LTMapEntry) body) with (@None wres). cbv beta iota.
  change (FTStruct =? FTSlice) with false. change (FTStruct =? FTStruct) with true. cbv iota.
  unfold is_json_map_entry. cbn [d_type d_logical d_elems length Nat.eqb]. rewrite H.
  change ((FTStruct =? FTStruct) && (LTMapEntry =? LTMapEntry) && true && (false && negb (d_explicit kd'))) with false. cbv iota.
  destruct ((LTMapEntry =? LTMapEntry) && negb false); reflexivity.
Qed.

Lemma walk_map_outer nm kd' vd' data :
  let ed := Desc 0 [] FTStruct nm [kd'; vd'] false LTMapEntry in
  walk (Desc 0 [] FTSlice [] [ed] false LTMap) data =
  (let isobj := (d_type kd' =? FTString) && negb (d_explicit kd') in
   let inner :=
     let '(count, n) := read_varuint data in
     if (n <? 0)%Z then werr [] else
     match go_drop "Descriptor.readAsSlice" (Z.to_N n) data with
     | Ok rest =>
       let cnt := if count <? two63 then count else 0 in
       walk_counted (fun e b => walk ed b) ed (S (length data)) cnt rest (Z.to_N n) []
     | r => wfail [] r
     end in
   mkw ([if isobj then EvStartObj else EvStartArr] ++ w_ev inner ++ [if isobj then EvEndObj else EvEndArr]) (w_out inner)).
Proof.
  intros ed. rewrite walk_eq.
  change (walk_scalar (Desc 0 [] FTSlice [] [ed] false LTMap) data) with (@None wres). cbv beta iota.
  change (FTSlice =? FTSlice) with true. cbv iota.
  unfold is_json_map, is_json_map_entry, ed. cbn [d_type d_logical d_elems length Nat.eqb].
  change ((FTSlice =? FTSlice) && (LTMap =? LTMap) && true) with true.
  change ((FTStruct =? FTStruct) && (LTMapEntry =? LTMapEntry) && true) with true. cbn [andb].
  change ((FTStruct =? FTFloat32) || (FTStruct =? FTFloat64) || (FTStruct =? FTInt) || (FTStruct =? FTUint) || (FTStruct =? FTFlatInt) || (FTStruct =? FTBool)) with false.
  change ((FTStruct =? FTStruct) || (FTStruct =? FTSlice) || (FTStruct =? FTString) || (FTStruct =? FTTime)) with true.
  cbv iota. reflexivity.
Qed.


Lemma strkey_type : forall kc kd, strkey kc = false -> descriptor_of kc = Ok kd -> (d_type kd =? FTString) = false.
Proof.
  induction kc; intros kd Hs Hd; cbn [strkey] in Hs; try discriminate Hs; cbn [descriptor_of] in Hd;
    repeat match type of Hd with
           | (do _ <- ?X; _) = _ => let E := fresh "E" in destruct X eqn:E; cbn [bind] in Hd; try discriminate Hd
           end;
    try discriminate Hd; injection Hd as <-; try reflexivity.
  - match goal with |- context [with_explicit ?d0] => destruct d0 end. cbn [with_explicit d_type]. apply (IHkc _ Hs eq_refl).
  - match goal with |- context [with_explicit ?d0] => destruct d0 end. cbn [with_explicit d_type]. apply (IHkc _ Hs eq_refl).
Qed.

Lemma find_elem_field : forall fs es f d0,
  Forall2 (fun f e => exists d0, descriptor_of (f_codec f) = Ok d0 /\ e = with_field (f_index f) (f_name f) d0) fs es ->
  NoDup (map (fun f => f_index f) fs) -> In f fs -> descriptor_of (f_codec f) = Ok d0 ->
  find_elem es (f_index f) = Some (with_field (f_index f) (f_name f) d0).
Proof.
  intros fs es f d0 H. revert f d0. induction H as [|g e fs es (dg & Hdg & He) Hrest IH]; intros f d0 Hnd Hin Hd; [destruct Hin|].
  unfold find_elem. cbn [find]. subst e.
  destruct (with_field_keeps (f_index g) (f_name g) dg) as (Hi & _). rewrite Hi.
  destruct (f_index g =? f_index f)%Z eqn:E.
  - destruct Hin as [<-|Hin]; [congruence|].
    exfalso. apply Z.eqb_eq in E. inversion Hnd as [|? ? Hnot _]; subst. apply Hnot. rewrite E.
    apply in_map_iff. exists f. auto.
  - destruct Hin as [<-|Hin]; [rewrite Z.eqb_refl in E; discriminate|].
    inversion Hnd; subst. apply (IH f d0); assumption.
Qed.

Lemma forall2_desc_of : forall fs es f,
  Forall2 (fun f e => exists d0, descriptor_of (f_codec f) = Ok d0 /\ e = with_field (f_index f) (f_name f) d0) fs es ->
  In f fs -> exists d0, descriptor_of (f_codec f) = Ok d0.
Proof.
  intros fs es f H. induction H as [|g e fs' es' (dg & Hdg & _) _ IHf]; intros Hin; [destruct Hin|].
  destruct Hin as [<-|Hin]; [eauto|apply IHf; exact Hin].
Qed.

Lemma walk_fields_nil walkd es fuel consumed hk hv acc :
  walk_fields walkd es false fuel [] consumed hk hv acc = wok acc consumed.
Proof. destruct fuel; reflexivity. Qed.

Section FieldsWalk.
  Variable fs : list (fld codec).
  Variable es : list desc.
  Hypothesis Hes : Forall2 (fun f e => exists d0, descriptor_of (f_codec f) = Ok d0 /\ e = with_field (f_index f) (f_name f) d0) fs es.
  Hypothesis Hnd : NoDup (map (fun f => f_index f) fs).

  Lemma fields_walk : forall (l : list (fld codec)) vs consumed hk hv acc fuel,
    incl l fs ->
    Forall (fun f => walk_ok (f_codec f) /\ (0 <= f_index f < 2305843009213693952)%Z /\ WKc (f_codec f)) l ->
    Forall (fun f => (omit (f_codec f) (slot vs (f_slot f)) = true \/ wfv (f_codec f) (slot vs (f_slot f)))
                     /\ fits (f_codec f) (slot vs (f_slot f)) /\ wkv (f_codec f) (slot vs (f_slot f))) l ->
    (length (flat_map (fenc vs) l) < fuel)%nat ->
    walk_fields (subwalk es) es false fuel (flat_map (fenc vs) l) consumed hk hv acc
    = wok (acc ++ flat_map (fev vs) l) (consumed + len (flat_map (fenc vs) l)).
  Proof.
    induction l as [|f r IH]; intros vs consumed hk hv acc fuel Hincl Hc Hv Hfuel.
    - cbn [flat_map]. rewrite len_nil, N.add_0_r, app_nil_r. apply walk_fields_nil.
    - inversion Hc as [|? ? (Hok & Hidx & Hwk) Hc']; subst.
      inversion Hv as [|? ? (Hwo & Hfit & Hkv) Hv']; subst.
      assert (Hin : In f fs) by (apply Hincl; left; reflexivity).
      assert (Hincl' : incl r fs) by (intros x Hx; apply Hincl; right; exact Hx).
      cbn [flat_map]. unfold fenc at 1 3, fev at 1. cbv zeta.
      cbn [flat_map] in Hfuel. unfold fenc at 1 in Hfuel. cbv zeta in Hfuel.
      destruct (omit (f_codec f) (slot vs (f_slot f))) eqn:Eo.
      + cbn [app]. apply IH; auto.
      + destruct Hwo as [Hwo|Hw]; [congruence|].
        destruct (forall2_desc_of fs es f Hes Hin) as [d0 Hd].
        pose proof (find_elem_field fs es f d0 Hes Hnd Hin Hd) as Hfind.
        destruct fuel as [|fuel']; [lia|].
        rewrite (field_walk_step (subwalk es) es (f_codec f) (f_index f) (f_name f) d0 (slot vs (f_slot f))
                   (flat_map (fenc vs) r) consumed hk hv acc fuel' (walk_ok_rt _ Hok) (walk_ok_top _ Hok) Hidx Hfind).
        * assert (Hlt : (length (flat_map (fenc vs) r) < fuel')%nat).
          { rewrite app_length in Hfuel.
            pose proof (field_tag_nonempty (f_codec f) (f_index f)) as Htg.
            destruct (tagged_enc_shape (f_codec f) (walk_ok_rt _ Hok) (walk_ok_top _ Hok) (slot vs (f_slot f)) (f_index f) Hw Hfit) as [ShL ShS].
            assert (1 <= length (enc (f_codec f) (slot vs (f_slot f)) (field_tag (f_codec f) (f_index f))))%nat.
            { destruct (N.eq_dec (wire (f_codec f)) WTLength) as [Hwt|Hwt].
              - destruct (ShL Hwt) as [-> _]. rewrite app_length. unfold len in Htg. lia.
              - rewrite (ShS Hwt). rewrite app_length. unfold len in Htg. lia. }
            lia. }
          rewrite IH; auto.
          rewrite len_app, N.add_assoc, <- app_assoc. reflexivity.
        * intros b. rewrite (subwalk_found es (f_index f) _ b Hfind). apply walk_with_field.
        * exact Hd.
        * exact Hwk.
        * exact Hw.
        * exact Hfit.
        * exact Hkv.
        * exact Hfuel.
  Qed.
End FieldsWalk.

(** ** scalar leaves *)
Lemma walk_leaf_int u more : u < two64 ->
  walk (simple FTInt LTNone) (append_varuint u ++ more) = wok [EvInt (zagzig u)] (len (append_varuint u)).
Proof.
  intros Hu. unfold walk, simple, walk_scalar, d_type, FTInt. cbn [N.eqb].
  rewrite read_append_varuint by exact Hu. pose proof (append_varuint_length_bounds u).
  replace (Z.of_N (len (append_varuint u)) <? 0)%Z with false by (symmetry; apply Z.ltb_ge; lia).
  rewrite N2Z.id. reflexivity.
Qed.
Lemma walk_leaf_uint u more : u < two64 ->
  walk (simple FTUint LTNone) (append_varuint u ++ more) = wok [EvUint u] (len (append_varuint u)).
Proof.
  intros Hu. unfold walk, simple, walk_scalar, d_type, FTUint, FTInt, FTFlatInt. cbn [N.eqb Pos.eqb].
  rewrite read_append_varuint by exact Hu. pose proof (append_varuint_length_bounds u).
  replace (Z.of_N (len (append_varuint u)) <? 0)%Z with false by (symmetry; apply Z.ltb_ge; lia).
  rewrite N2Z.id. reflexivity.
Qed.
Lemma walk_leaf_flat u more : u < two64 ->
  walk (simple FTFlatInt LTNone) (append_varuint u ++ more) = wok [EvInt (s64 u)] (len (append_varuint u)).
Proof.
  intros Hu. unfold walk, simple, walk_scalar, d_type, d_logical, FTUint, FTInt, FTFlatInt, LTNone, LTTimestamp. cbn [N.eqb Pos.eqb].
  rewrite read_append_varuint by exact Hu. pose proof (append_varuint_length_bounds u).
  replace (Z.of_N (len (append_varuint u)) <? 0)%Z with false by (symmetry; apply Z.ltb_ge; lia).
  rewrite N2Z.id. reflexivity.
Qed.
Lemma walk_leaf_bool u more : u < two64 ->
  walk (simple FTBool LTNone) (append_varuint u ++ more) = wok [EvBool (negb (u =? 0))] (len (append_varuint u)).
Proof.
  intros Hu. unfold walk, simple, walk_scalar, d_type, FTUint, FTInt, FTFlatInt, FTBool. cbn [N.eqb Pos.eqb].
  rewrite read_append_varuint by exact Hu. pose proof (append_varuint_length_bounds u).
  replace (Z.of_N (len (append_varuint u)) <? 0)%Z with false by (symmetry; apply Z.ltb_ge; lia).
  rewrite N2Z.id. reflexivity.
Qed.

Lemma firstn_le n b (more : bytes) : firstn n (le_bytes n b ++ more) = le_bytes n b.
Proof.
  replace n with (length (le_bytes n b)) at 1 by apply le_bytes_length.
  rewrite firstn_app, Nat.sub_diag, firstn_all. cbn [firstn]. apply app_nil_r.
Qed.

Lemma walk_leaf_f32 b more : b < 4294967296 ->
  walk (simple FTFloat32 LTNone) (le_bytes 4 b ++ more) = wok [EvF32 b] 4.
Proof.
  intros Hb. unfold walk, simple, walk_scalar, d_type, FTUint, FTInt, FTFlatInt, FTBool, FTFloat32. cbn [N.eqb Pos.eqb].
  rewrite len_app, len_le_bytes. replace (N.of_nat 4 + len more <? 4) with false by (symmetry; apply N.ltb_ge; lia).
  rewrite (firstn_le 4), le_value_bytes by exact Hb. reflexivity.
Qed.
Lemma walk_leaf_f64 b more : b < two64 ->
  walk (simple FTFloat64 LTNone) (le_bytes 8 b ++ more) = wok [EvF64 b] 8.
Proof.
  intros Hb. unfold walk, simple, walk_scalar, d_type, FTUint, FTInt, FTFlatInt, FTBool, FTFloat32, FTFloat64. cbn [N.eqb Pos.eqb].
  rewrite len_app, len_le_bytes. replace (N.of_nat 8 + len more <? 8) with false by (symmetry; apply N.ltb_ge; lia).
  rewrite (firstn_le 8), le_value_bytes by exact Hb. reflexivity.
Qed.
Lemma walk_leaf_str s : walk (simple FTString LTNone) s = wok [EvStr s] (len s).
Proof. reflexivity. Qed.

Lemma walk_leaf_time s n : int64_ok s -> (0 <= n < 1000000000)%Z ->
  walk (simple FTTime LTTimestamp) (time_body false s n) = wok [EvTime s n] (len (time_body false s n)).
Proof.
  intros Hs Hn. pose proof (time_roundtrip false s n (VTime 0 0) Hs Hn) as H. cbn [dec] in H.
  unfold walk, simple, walk_scalar, d_type, FTUint, FTInt, FTFlatInt, FTBool, FTFloat32, FTFloat64, FTString, FTTime. cbn [N.eqb Pos.eqb].
  destruct (time_body false s n) as [|b0 r0] eqn:Eb; [discriminate Eb|].
  destruct (time_loop false (S (length (b0 :: r0))) (b0 :: r0) 0 0%Z 0%Z) as [[[s' ns'] used]| | | |]; cbn [bind] in H; try discriminate.
  assert (Hn' : time_norm s' ns' = VTime s n) by congruence.
  assert (Hu : used = len (b0 :: r0)) by congruence.
  rewrite Hn', Hu. reflexivity.
Qed.

(** ** slices *)
Lemma walk_packed_unfold walkd elt f rest consumed acc : rest <> [] ->
  walk_packed walkd elt (S f) rest consumed acc =
  (let w := walkd elt rest in
   match w_out w with
   | Ok used =>
     if used =? 0 then werr (acc ++ w_ev w) else
     match go_drop "Descriptor.readAsSlice" used rest with
     | Ok r1 => walk_packed walkd elt f r1 (consumed + used) (acc ++ w_ev w)
     | r => wfail (acc ++ w_ev w) r
     end
   | r => mkw (acc ++ w_ev w) (match r with Ok _ => Err | x => x end)
   end).
Proof. intros H. destruct rest; [congruence|reflexivity]. Qed.

Lemma walk_counted_unfold walkd elt f cnt rest consumed acc : rest <> [] -> cnt <> 0 ->
  walk_counted walkd elt (S f) cnt rest consumed acc =
  (let '(s, m) := read_varuint rest in
   if (m <=? 0)%Z then werr acc else
   match go_drop "Descriptor.readAsSlice" (Z.to_N m) rest with
   | Ok r1 =>
     if len r1 <? s then werr acc else
     match go_take "Descriptor.readAsSlice" s r1 with
     | Ok body =>
       let w := walkd elt body in
       match w_out w with
       | Ok used =>
         match go_drop "Descriptor.readAsSlice" used r1 with
         | Ok r2 => walk_counted walkd elt f (cnt - 1) r2 (consumed + Z.to_N m + used) (acc ++ w_ev w)
         | r => wfail (acc ++ w_ev w) r
         end
       | r => mkw (acc ++ w_ev w) (match r with Ok _ => Err | x => x end)
       end
     | r => wfail acc r
     end
   | r => wfail acc r
   end).
Proof.
  intros H Hc. destruct rest; [congruence|]. cbn [walk_counted].
  replace (cnt =? 0) with false by (symmetry; apply N.eqb_neq; exact Hc). reflexivity.
Qed.

Lemma walk_packed_list {A} walkd elt (h : A -> bytes) (evs : A -> list ev) : forall (l : list A) fuel consumed acc,
  Forall (fun x => h x <> [] /\ forall more, walkd elt (h x ++ more) = wok (evs x) (len (h x))) l ->
  (length (flat_map h l) < fuel)%nat ->
  walk_packed walkd elt fuel (flat_map h l) consumed acc = wok (acc ++ flat_map evs l) (consumed + len (flat_map h l)).
Proof.
  induction l as [|x l IH]; intros fuel consumed acc Hall Hfuel.
  - cbn [flat_map]. rewrite len_nil, N.add_0_r, app_nil_r. destruct fuel; reflexivity.
  - pose proof (Forall_inv Hall) as [Hne Hw]. pose proof (Forall_inv_tail Hall) as Hall'.
    cbn [flat_map] in *. destruct fuel as [|fuel']; [lia|].
    assert (Hl1 : (1 <= length (h x))%nat) by (destruct (h x); [congruence|cbn; lia]).
    rewrite walk_packed_unfold
      by (intros E0; apply (f_equal (@length N)) in E0; rewrite app_length in E0; cbn [length] in E0; lia).
    cbv zeta. rewrite Hw. cbn [w_out w_ev wok].
    replace (len (h x) =? 0) with false by (symmetry; apply N.eqb_neq; unfold len; lia).
    rewrite go_drop_app. rewrite IH.
    + rewrite <- app_assoc, len_app, N.add_assoc. reflexivity.
    + exact Hall'.
    + rewrite app_length in Hfuel. lia.
Qed.

Lemma walk_counted_list {A} walkd elt (h : A -> bytes) (evs : A -> list ev) : forall (l : list A) fuel more consumed acc,
  Forall (fun x => len (h x) < two64 /\ walkd elt (h x) = wok (evs x) (len (h x))) l ->
  (length l <= fuel)%nat ->
  walk_counted walkd elt fuel (N.of_nat (length l)) (flat_map (fun x => lenframe (h x)) l ++ more) consumed acc
  = wok (acc ++ flat_map evs l) (consumed + len (flat_map (fun x => lenframe (h x)) l)).
Proof.
  induction l as [|x l IH]; intros fuel more consumed acc Hall Hk.
  - destruct fuel; cbn [walk_counted length N.of_nat N.eqb flat_map]; rewrite app_nil_r, len_nil, N.add_0_r; reflexivity.
  - pose proof (Forall_inv Hall) as (Hlx & Hkv). pose proof (Forall_inv_tail Hall) as Hall'.
    destruct fuel as [|k']; [cbn in Hk; lia|].
    cbn [flat_map]. change (lenframe (h x)) with (append_varuint (len (h x)) ++ h x).
    rewrite <- !app_assoc.
    pose proof (append_varuint_length_bounds (len (h x))) as Hb.
    rewrite walk_counted_unfold.
    2:{ intros E0. apply (f_equal (@length N)) in E0. rewrite app_length in E0. cbn [length] in E0. unfold len in *. lia. }
    2:{ cbn [length]. lia. }
    rewrite read_append_varuint by exact Hlx. cbv beta iota.
    replace (Z.of_N (len (append_varuint (len (h x)))) <=? 0)%Z with false by (symmetry; apply Z.leb_gt; lia).
    rewrite N2Z.id, go_drop_app.
    rewrite len_app. replace (len (h x) + len (flat_map (fun x0 => lenframe (h x0)) l ++ more) <? len (h x)) with false
      by (symmetry; apply N.ltb_ge; lia).
    rewrite go_take_app. cbv zeta. rewrite Hkv. cbn [w_out w_ev wok]. rewrite go_drop_app.
    replace (N.of_nat (length (x :: l)) - 1) with (N.of_nat (length l)) by (cbn [length]; lia).
    rewrite IH by (try exact Hall'; cbn [length] in Hk; lia).
    rewrite <- app_assoc. f_equal. rewrite !len_app. lia.
Qed.

Definition packed_type (t : N) : bool :=
  (t =? FTFloat32) || (t =? FTFloat64) || (t =? FTInt) || (t =? FTUint) || (t =? FTFlatInt) || (t =? FTBool).
Definition counted_type (t : N) : bool :=
  (t =? FTStruct) || (t =? FTSlice) || (t =? FTString) || (t =? FTTime).

Lemma walk_slice_packed elt data : packed_type (d_type elt) = true ->
  walk (Desc 0 [] FTSlice [] [elt] false LTNone) data =
  let inner := walk_packed (fun e b => walk elt b) elt (S (length data)) data 0 [] in
  mkw ([EvStartArr] ++ w_ev inner ++ [EvEndArr]) (w_out inner).
Proof.
  intros H. destruct elt as [ei en et etn ees ex el]. cbn [d_type] in H.
  unfold packed_type, FTFloat32, FTFloat64, FTInt, FTUint, FTFlatInt, FTBool in H.
  repeat (apply orb_true_iff in H; destruct H as [H|H]); apply N.eqb_eq in H; subst et; reflexivity.
Qed.

Lemma walk_slice_counted elt data : counted_type (d_type elt) = true ->
  walk (Desc 0 [] FTSlice [] [elt] false LTNone) data =
  let inner :=
    let '(count, n) := read_varuint data in
    if (n <? 0)%Z then werr [] else
    match go_drop "Descriptor.readAsSlice" (Z.to_N n) data with
    | Ok rest =>
      let cnt := if count <? two63 then count else 0 in
      walk_counted (fun e b => walk elt b) elt (S (length data)) cnt rest (Z.to_N n) []
    | r => wfail [] r
    end in
  mkw ([EvStartArr] ++ w_ev inner ++ [EvEndArr]) (w_out inner).
Proof.
  intros H. destruct elt as [ei en et etn ees ex el]. cbn [d_type] in H.
  unfold counted_type, FTStruct, FTSlice, FTString, FTTime in H.
  repeat (apply orb_true_iff in H; destruct H as [H|H]); apply N.eqb_eq in H; subst et; reflexivity.
Qed.

(** the descriptor of a length-delimited codec of the fragment is one the
    counted-slice walker accepts as an element *)
Lemma desc_counted : forall c, walk_ok c -> wire c = WTLength -> forall d, descriptor_of c = Ok d ->
  counted_type (d_type d) = true.
Proof.
  induction c as [ |b|b|b| | | | |compat| |c IH|c IH|nm n fs IH|c IH|c IH|c IH|c IH|kc vc IHk IHv|kc vc IHk IHv| | | ]
    using codec_ind'; intros Hok Hwt d Hd; cbn [walk_ok] in Hok; try contradiction;
    cbn [wire] in Hwt; unfold WTVarInt, WT64, WT32, WTLength, WTSlice in Hwt; try discriminate Hwt;
    cbn [descriptor_of] in Hd.
  - inversion Hd; reflexivity.
  - inversion Hd; reflexivity.
  - inversion Hd; reflexivity.
  - destruct (descriptor_of c) as [d0| | | |] eqn:E; cbn [bind] in Hd; try discriminate. inversion Hd; subst.
    destruct d0. cbn [with_explicit d_type]. apply (IH Hok Hwt _ eq_refl).
  - destruct (descriptor_of c) as [d0| | | |] eqn:E; cbn [bind] in Hd; try discriminate. inversion Hd; subst.
    destruct d0. cbn [with_explicit d_type]. apply (IH Hok Hwt _ eq_refl).
  - match type of Hd with (do es <- ?X; _) = _ => destruct X as [es| | | |] end; cbn [bind] in Hd; try discriminate.
    inversion Hd; reflexivity.
  - destruct (descriptor_of c) as [d0| | | |] eqn:E; cbn [bind] in Hd; try discriminate. inversion Hd; reflexivity.
  - destruct (descriptor_of c) as [d0| | | |] eqn:E; cbn [bind] in Hd; try discriminate. inversion Hd; reflexivity.
Qed.

(** ** maps *)

Lemma walk_empty : forall c d, walk_ok c -> descriptor_of c = Ok d ->
  match c with CPtr _ | CNull _ => True | _ => walk d [] = wok (zev c) 0 end.
Proof.
  intros c d Hok Hd. destruct c; try exact I; cbn [walk_ok] in Hok; try contradiction; cbn [descriptor_of] in Hd.
  - injection Hd as <-. reflexivity.
  - injection Hd as <-. reflexivity.
  - injection Hd as <-. reflexivity.
  - injection Hd as <-. reflexivity.
  - injection Hd as <-. reflexivity.
  - injection Hd as <-. reflexivity.
  - injection Hd as <-. reflexivity.
  - injection Hd as <-. reflexivity.
  - destruct compat; [contradiction|]. injection Hd as <-. reflexivity.
  - match type of Hd with (do es <- ?X; _) = _ => destruct X as [es| | | |] end; cbn [bind] in Hd; try discriminate.
    injection Hd as <-. reflexivity.
  - destruct Hok as [Hpv _]. destruct (descriptor_of c) as [d0| | | |] eqn:E; cbn [bind] in Hd; try discriminate. injection Hd as <-.
    assert (Hpt : packed_type (d_type d0) = true) by (destruct c; cbn [plain_varint0] in Hpv; try contradiction; inversion E; reflexivity).
    rewrite (walk_slice_packed d0 _ Hpt). reflexivity.
  - destruct (descriptor_of c) as [d0| | | |] eqn:E; cbn [bind] in Hd; try discriminate. injection Hd as <-.
    assert (Hpt : packed_type (d_type d0) = true) by (destruct c; cbn [plain_fixed] in Hok; try contradiction; inversion E; reflexivity).
    rewrite (walk_slice_packed d0 _ Hpt). reflexivity.
  - destruct Hok as [Hokc Hwc]. destruct (descriptor_of c) as [d0| | | |] eqn:E; cbn [bind] in Hd; try discriminate. injection Hd as <-.
    rewrite (walk_slice_counted d0 _ (desc_counted c Hokc Hwc d0 E)). reflexivity.
  - destruct Hok as (Hokk & Hokv & Hkey).
    destruct (descriptor_of c1) as [kd| | | |] eqn:Ek; cbn [bind] in Hd; try discriminate.
    destruct (descriptor_of c2) as [vd| | | |] eqn:Ev; cbn [bind] in Hd; try discriminate. injection Hd as <-.
    rewrite walk_map_outer. cbv zeta.
    assert (Et : forall nme, (d_type (with_field 1 nme kd) =? FTString) = match c1 with CString => true | _ => false end).
    { intros nme. destruct (with_field_keeps 1 nme kd) as (_ & _ & T & _). rewrite T.
      destruct Hkey as [->|Hs]; [injection Ek as <-; reflexivity|].
      rewrite (strkey_type c1 kd Hs Ek). destruct c1; try reflexivity. discriminate Hs. }
    rewrite Et. destruct c1; try reflexivity.
    (* a plain string key: no explicit presence *)
    injection Ek as <-. reflexivity.
  - injection Hd as <-. reflexivity.
  - injection Hd as <-. reflexivity.
Qed.

(** readAsMapEntry over a (key, value) descriptor pair, one step *)
Lemma walk_entry_unfold walkd kd' vd' f rest consumed hk hv acc : rest <> [] ->
  walk_fields walkd [kd'; vd'] true (S f) rest consumed hk hv acc =
  (let '(wt, index, n) := read_tag rest in
   if (n <=? 0)%Z then werr acc else
   match go_drop "Descriptor.readAsStruct" (Z.to_N n) rest with
   | Ok rest1 =>
     let c1 := consumed + Z.to_N n in
     match find_elem [kd'; vd'] index with
     | None =>
       match skip rest1 wt with
       | Ok k => match go_drop "Descriptor.readAsStruct" k rest1 with
                 | Ok rest2 => walk_fields walkd [kd'; vd'] true f rest2 (c1 + k) hk hv acc
                 | r => wfail acc r
                 end
       | r => wfail acc r
       end
     | Some elt =>
       let iskey := (d_index kd' =? index)%Z in
       let body (fdata after : bytes) (c2 : N) :=
         let wk := if negb iskey && negb hk then read_missing walkd kd' else wok [] 0 in
         match w_out wk with
         | Ok _ =>
           let pre := acc ++ w_ev wk in
           let w := walkd elt fdata in
           match w_out w with
           | Ok used =>
             match go_drop "Descriptor.readAsStruct" used after with
             | Ok rest3 => walk_fields walkd [kd'; vd'] true f rest3 (c2 + used) true (hv || negb iskey) (pre ++ w_ev w)
             | r => wfail (pre ++ w_ev w) r
             end
           | r => mkw (pre ++ w_ev w) (match r with Ok _ => Err | x => x end)
           end
         | r => mkw (acc ++ w_ev wk) (match r with Ok _ => Err | x => x end)
         end in
       if wt =? WTLength then
         let '(l, k) := read_varuint rest1 in
         if (k <=? 0)%Z then werr acc else
         match go_drop "Descriptor.readAsStruct" (Z.to_N k) rest1 with
         | Ok rest2 =>
           if len rest2 <? l then werr acc else
           match go_take "Descriptor.readAsStruct" l rest2 with
           | Ok fdata => body fdata rest2 (c1 + Z.to_N k)
           | r => wfail acc r
           end
         | r => wfail acc r
         end
       else body rest1 rest1 c1
     end
   | r => wfail acc r
   end).
Proof.
  intros H. destruct rest as [|b0 rest0]; [congruence|]. cbn [walk_fields andb].
  destruct (read_tag (b0 :: rest0)) as [[wt index] n]. destruct (n <=? 0)%Z; [reflexivity|].
  destruct (go_drop "Descriptor.readAsStruct" (Z.to_N n) (b0 :: rest0)); try reflexivity.
  destruct (find_elem [kd'; vd'] index); [|reflexivity].
  destruct (d_index kd' =? index)%Z; cbn [negb orb andb]; rewrite ?app_nil_r, ?Bool.orb_true_r; reflexivity.
Qed.

Section StringKeyEntry.
  Variable vc : codec.
  Variable vd : desc.
  Hypothesis Hokv : walk_ok vc.
  Hypothesis Hwkv : WKc vc.
  Hypothesis Hdv : descriptor_of vc = Ok vd.

  Let kd := simple FTString LTNone.
  Let kd' := with_field 1 (ascii "key") kd.
  Let vd' := with_field 2 (ascii "value") vd.
  Let es2 := [kd'; vd'].

  Lemma vd'_index : d_index vd' = 2%Z.
  Proof. unfold vd'. destruct vd. reflexivity. Qed.
  Lemma find_key : find_elem es2 1 = Some kd'.
  Proof. reflexivity. Qed.
  Lemma find_val : find_elem es2 2 = Some vd'.
  Proof. unfold find_elem, es2. cbn [find]. change (d_index kd' =? 2)%Z with false. cbv iota. rewrite vd'_index. reflexivity. Qed.
  Lemma sub_key b : subwalk es2 kd' b = walk kd b.
  Proof. rewrite (subwalk_found es2 1 kd' b find_key). reflexivity. Qed.
  Lemma sub_val b : subwalk es2 vd' b = walk vd b.
  Proof. rewrite (subwalk_found es2 2 vd' b find_val). unfold vd'. apply walk_with_field. Qed.
  Lemma vd'_explicit : d_explicit vd' = d_explicit vd.
  Proof. unfold vd'. destruct vd. reflexivity. Qed.

  (** what stands for an omitted value *)
  Definition missing_val : list ev := if d_explicit vd then [EvRaw (ascii "null")] else zev vc.

  Lemma read_missing_key : read_missing (subwalk es2) kd' = wok [EvStr []] 0.
  Proof. unfold read_missing. change (d_explicit kd') with false. cbv iota. rewrite sub_key. reflexivity. Qed.

  Lemma read_missing_val : read_missing (subwalk es2) vd' = wok missing_val 0.
  Proof.
    unfold read_missing, missing_val. rewrite vd'_explicit. destruct (d_explicit vd) eqn:Ex; [reflexivity|].
    rewrite sub_val. pose proof (walk_empty vc vd Hokv Hdv) as H.
    destruct vc; try exact H; cbn [descriptor_of] in Hdv;
      (destruct (descriptor_of c) as [d0| | | |]; cbn [bind] in Hdv; try discriminate; injection Hdv as <-;
       rewrite with_explicit_spec in Ex; discriminate).
  Qed.

  Lemma entry_end fuel c hk hv acc :
    walk_fields (subwalk es2) es2 true fuel [] c hk hv acc
    = wok (acc ++ (if hk then [] else [EvStr []]) ++ (if hv then [] else missing_val)) c.
  Proof.
    assert (E : walk_fields (subwalk es2) es2 true fuel [] c hk hv acc =
                let w1 := if hk then wok [] 0 else read_missing (subwalk es2) kd' in
                match w_out w1 with
                | Ok _ => let w2 := if hv then wok [] 0 else read_missing (subwalk es2) vd' in
                          match w_out w2 with
                          | Ok _ => wok (acc ++ w_ev w1 ++ w_ev w2) c
                          | r => mkw (acc ++ w_ev w1 ++ w_ev w2) (match r with Ok _ => Err | x => x end)
                          end
                | r => mkw (acc ++ w_ev w1) (match r with Ok _ => Err | x => x end)
                end) by (destruct fuel; reflexivity).
    rewrite E. cbv zeta. rewrite read_missing_key, read_missing_val. destruct hk, hv; reflexivity.
  Qed.

  Lemma entry_key_step : forall k more c hv acc f, k <> [] -> len k < two64 ->
    walk_fields (subwalk es2) es2 true (S f) (enc CString (VStr k) (field_tag CString 1) ++ more) c false hv acc
    = walk_fields (subwalk es2) es2 true f more (c + len (enc CString (VStr k) (field_tag CString 1))) true hv (acc ++ [EvStr k]).
  Proof.
    intros k more c hv acc f Hne Hl.
    assert (Ee : enc CString (VStr k) (field_tag CString 1) = field_tag CString 1 ++ append_varuint (len k) ++ k) by reflexivity.
    rewrite Ee, <- !app_assoc. unfold es2 at 1 2.
    rewrite walk_entry_unfold by discriminate.
    rewrite read_tag_field by lia. cbv beta iota.
    change (Z.of_N (len (field_tag CString 1)) <=? 0)%Z with false. cbv iota.
    rewrite N2Z.id, go_drop_app. fold es2. rewrite find_key. cbv zeta.
    change (d_index kd' =? 1)%Z with true. cbn [negb andb orb wire N.eqb WTLength Pos.eqb].
    rewrite read_append_varuint by exact Hl. cbv beta iota.
    pose proof (append_varuint_length_bounds (len k)) as Hb.
    replace (Z.of_N (len (append_varuint (len k))) <=? 0)%Z with false by (symmetry; apply Z.leb_gt; lia).
    rewrite N2Z.id, go_drop_app. rewrite len_app.
    replace (len k + len more <? len k) with false by (symmetry; apply N.ltb_ge; lia).
    rewrite go_take_app. cbn [w_out wok w_ev]. rewrite app_nil_r. rewrite sub_key.
    change (walk kd k) with (wok [EvStr k] (len k)). cbn [w_out wok w_ev]. rewrite go_drop_app.
    rewrite Bool.orb_false_r. f_equal. rewrite !len_app. lia.
  Qed.

  Lemma entry_val_step : forall x more c hk hv acc f, wfv vc x -> fits vc x -> wkv vc x ->
    walk_fields (subwalk es2) es2 true (S f) (enc vc x (field_tag vc 2) ++ more) c hk hv acc
    = walk_fields (subwalk es2) es2 true f more (c + len (enc vc x (field_tag vc 2))) true true
        (acc ++ (if hk then [] else [EvStr []]) ++ vev vc x).
  Proof.
    intros x more c hk hv acc f Hw Hf Hk.
    set (tg := field_tag vc 2).
    destruct (tagged_enc_shape vc (walk_ok_rt _ Hokv) (walk_ok_top _ Hokv) x 2 Hw Hf) as [ShL ShS]. fold tg in ShL, ShS.
    destruct (Hwkv x vd Hdv Hw Hf Hk) as [WkL WkS].
    pose proof (field_tag_nonempty vc 2) as Htg. fold tg in Htg.
    assert (Hne : forall p, tg ++ p <> []).
    { intros p E0. apply (f_equal (@length N)) in E0. rewrite app_length in E0. unfold len in Htg. cbn [length] in E0. lia. }
    assert (Hwk : (if negb false && negb hk then read_missing (subwalk es2) kd' else wok [] 0)
                  = wok (if hk then [] else [EvStr []]) 0).
    { destruct hk; cbn [negb andb]; [reflexivity|apply read_missing_key]. }
    destruct (N.eq_dec (wire vc) WTLength) as [Hwt|Hwt].
    - destruct (ShL Hwt) as [Ee Hlen]. rewrite Ee, <- !app_assoc. unfold es2 at 1 2.
      rewrite walk_entry_unfold by apply Hne.
      unfold tg at 1. rewrite read_tag_field by lia. fold tg. cbv beta iota.
      replace (Z.of_N (len tg) <=? 0)%Z with false by (symmetry; apply Z.leb_gt; lia).
      rewrite N2Z.id, go_drop_app. fold es2. rewrite find_val. cbv zeta.
      change (d_index kd' =? 2)%Z with false. rewrite Hwk.
      replace (wire vc =? WTLength) with true by (symmetry; apply N.eqb_eq; exact Hwt).
      rewrite read_append_varuint by exact Hlen. cbv beta iota.
      pose proof (append_varuint_length_bounds (len (enc vc x []))) as Hb.
      replace (Z.of_N (len (append_varuint (len (enc vc x [])))) <=? 0)%Z with false by (symmetry; apply Z.leb_gt; lia).
      rewrite N2Z.id, go_drop_app. rewrite len_app.
      replace (len (enc vc x []) + len more <? len (enc vc x [])) with false by (symmetry; apply N.ltb_ge; lia).
      rewrite go_take_app. cbn [w_out wok w_ev]. rewrite sub_val, (WkL Hwt). cbn [w_out wok w_ev]. rewrite go_drop_app.
      cbn [negb]. rewrite Bool.orb_true_r, <- app_assoc. f_equal. rewrite !len_app. lia.
    - pose proof (ShS Hwt) as Ee. rewrite Ee, <- !app_assoc. unfold es2 at 1 2.
      rewrite walk_entry_unfold by apply Hne.
      unfold tg at 1. rewrite read_tag_field by lia. fold tg. cbv beta iota.
      replace (Z.of_N (len tg) <=? 0)%Z with false by (symmetry; apply Z.leb_gt; lia).
      rewrite N2Z.id, go_drop_app. fold es2. rewrite find_val. cbv zeta.
      change (d_index kd' =? 2)%Z with false. rewrite Hwk.
      replace (wire vc =? WTLength) with false by (symmetry; apply N.eqb_neq; exact Hwt).
      cbn [w_out wok w_ev]. rewrite sub_val, (WkS Hwt more). cbn [w_out wok w_ev]. rewrite go_drop_app.
      cbn [negb]. rewrite Bool.orb_true_r, <- app_assoc. f_equal. rewrite !len_app. lia.
  Qed.

  (** the value of an entry in the JSON image *)
  Definition mval (x : val) : list ev := if omit vc x then missing_val else vev vc x.

  Lemma enc_tagged_nonempty x : wfv vc x -> fits vc x -> (1 <= length (enc vc x (field_tag vc 2)))%nat.
  Proof.
    intros Hw Hf. pose proof (field_tag_nonempty vc 2) as Htg.
    destruct (tagged_enc_shape vc (walk_ok_rt _ Hokv) (walk_ok_top _ Hokv) x 2 Hw Hf) as [ShL ShS].
    destruct (N.eq_dec (wire vc) WTLength) as [Hwt|Hwt].
    - destruct (ShL Hwt) as [-> _]. rewrite app_length. unfold len in Htg. lia.
    - rewrite (ShS Hwt). rewrite app_length. unfold len in Htg. lia.
  Qed.

  (** one entry of a string-keyed map *)
  Lemma walk_string_entry : forall k x fuel, len k < two64 ->
    (omit vc x = true \/ wfv vc x) -> fits vc x -> wkv vc x ->
    let body := entry_body CString vc (VStr k, x) in
    (length body < fuel)%nat ->
    walk_fields (subwalk es2) es2 true fuel body 0 false false [] = wok (EvStr k :: mval x) (len body).
  Proof.
    intros k x fuel Hl Hwx Hf Hk body Hfuel. unfold body, entry_body, mval in *. cbn [fst snd omit] in *.
    destruct k as [|b0 k'].
    - (* empty key: omitted *)
      destruct (omit vc x) eqn:Eo; cbn [app] in *.
      + rewrite entry_end. reflexivity.
      + destruct Hwx as [Hwx|Hwx]; [congruence|]. destruct fuel as [|f]; [lia|].
        rewrite <- (app_nil_r (enc vc x (field_tag vc 2))) at 1.
        rewrite entry_val_step by assumption. rewrite entry_end. cbn [app]. rewrite app_nil_r, N.add_0_l. reflexivity.
    - destruct fuel as [|f]; [lia|].
      rewrite entry_key_step by (try discriminate; exact Hl).
      destruct (omit vc x) eqn:Eo; cbn [app] in *.
      + rewrite entry_end. cbn [app]. rewrite N.add_0_l, app_nil_r. reflexivity.
      + destruct Hwx as [Hwx|Hwx]; [congruence|].
        pose proof (enc_tagged_nonempty x Hwx Hf) as Hne.
        assert (Hke : (1 <= length (enc CString (VStr (b0 :: k')) (field_tag CString 1)))%nat) by (cbn; lia).
        rewrite app_length in Hfuel.
        destruct f as [|f']; [lia|].
        rewrite <- (app_nil_r (enc vc x (field_tag vc 2))) at 1.
        rewrite entry_val_step by assumption. rewrite entry_end. cbn [app]. rewrite app_nil_r, N.add_0_l, len_app. reflexivity.
  Qed.
End StringKeyEntry.

Lemma ubits64_u64 z : ubits 64 z = u64 z.
Proof. reflexivity. Qed.

Lemma u64_small b z : bits_ok b -> uint_range b z -> u64 z = Z.to_N z /\ u64 z < two64.
Proof.
  intros Hb Hz. unfold uint_range in Hz. unfold u64, two64Z, two64.
  assert (Z.of_N (2 ^ b) <= 18446744073709551616)%Z by (destruct Hb as [->|[->|[->| ->]]]; cbn; lia).
  rewrite Z.mod_small by lia. split; [reflexivity|lia].
Qed.

Ltac not_length H := cbn [wire] in H; unfold WTVarInt, WT64, WT32, WTLength, WTSlice in H; congruence.

(** ** C13: the walk of Marshal's output emits the value's Outputter calls *)
Theorem walk_enc : forall c, walk_ok c -> WKc c.
Proof.
  induction c as [ |b|b|b| | | | |compat| |c IH|c IH|nm n fs IH|c IH|c IH|c IH|c IH|kc vc IHk IHv|kc vc IHk IHv| | | ]
    using codec_ind'; intros Hok v d Hd Hw Hf Hk; cbn [walk_ok] in Hok; try contradiction.
  - (* bool *) injection Hd as <-. cbn [wfv] in Hw. destruct v as [bv| | | | | | | | | | | |]; try contradiction.
    split; [intros Hwt; not_length Hwt|intros _ more]. cbn [enc app vev].
    rewrite walk_leaf_bool by (destruct bv; unfold two64; lia). destruct bv; reflexivity.
  - (* int *) injection Hd as <-. cbn [wfv] in Hw. destruct v as [|z| | | | | | | | | | |]; try contradiction.
    pose proof (int_range_64 b z Hok Hw) as Hz.
    split; [intros Hwt; not_length Hwt|intros _ more]. cbn [enc app vev]. unfold append_varint.
    rewrite walk_leaf_int by (apply zigzag_range; exact Hz). rewrite zagzig_zigzag by exact Hz. reflexivity.
  - (* uint *) injection Hd as <-. cbn [wfv] in Hw. destruct v as [|z| | | | | | | | | | |]; try contradiction.
    destruct (u64_small b z Hok Hw) as [E Hlt].
    split; [intros Hwt; not_length Hwt|intros _ more]. cbn [enc app vev].
    rewrite walk_leaf_uint by exact Hlt. rewrite E. reflexivity.
  - (* flat, 64 bits *) subst b. injection Hd as <-. cbn [wfv] in Hw. destruct v as [|z| | | | | | | | | | |]; try contradiction.
    assert (Hz : int64_ok z) by (apply (int_range_64 64 z); [unfold bits_ok; auto|exact Hw]).
    split; [intros Hwt; not_length Hwt|intros _ more]. cbn [enc app vev]. rewrite ubits64_u64.
    rewrite walk_leaf_flat by apply u64_lt. rewrite s64_u64 by exact Hz. reflexivity.
  - (* float32 *) injection Hd as <-. cbn [wfv] in Hw. destruct v as [| |x| | | | | | | | | |]; try contradiction.
    split; [intros Hwt; not_length Hwt|intros _ more]. cbn [enc app vev].
    rewrite walk_leaf_f32 by exact Hw. rewrite len_le_bytes. reflexivity.
  - (* float64 *) injection Hd as <-. cbn [wfv] in Hw. destruct v as [| | |x| | | | | | | | |]; try contradiction.
    split; [intros Hwt; not_length Hwt|intros _ more]. cbn [enc app vev].
    rewrite walk_leaf_f64 by exact Hw. rewrite len_le_bytes. reflexivity.
  - (* string *) injection Hd as <-. cbn [wfv] in Hw. destruct v as [| | | |s| | | | | | | |]; try contradiction.
    split; [intros _|intros Hwt; exfalso; apply Hwt; reflexivity]. reflexivity.
  - (* bytes *) injection Hd as <-. cbn [wfv] in Hw. destruct v as [| | | |s| | | | | | | |]; try contradiction.
    split; [intros _|intros Hwt; exfalso; apply Hwt; reflexivity]. reflexivity.
  - (* time *) destruct compat; [contradiction|]. injection Hd as <-. cbn [wfv] in Hw.
    destruct v as [| | | | |s ns| | | | | | |]; try contradiction. destruct Hw as [Hs Hn].
    split; [intros _|intros Hwt; exfalso; apply Hwt; reflexivity]. cbn [enc frame_tag vev].
    apply walk_leaf_time; assumption.
  - (* null.* *) cbn [descriptor_of] in Hd.
    destruct (descriptor_of c) as [d0| | | |] eqn:E; cbn [bind] in Hd; try discriminate. injection Hd as <-.
    cbn [wfv] in Hw. destruct v as [| | | | | | |[|] p| | | | |]; try contradiction.
    cbn [fits wkv] in Hf, Hk. destruct (IH Hok p d0 E Hw Hf Hk) as [L S0].
    cbn [wire enc vev]. split.
    + intros Hwt. rewrite walk_with_explicit. apply L. exact Hwt.
    + intros Hwt more. rewrite walk_with_explicit. apply S0. exact Hwt.
  - (* pointer *) cbn [descriptor_of] in Hd.
    destruct (descriptor_of c) as [d0| | | |] eqn:E; cbn [bind] in Hd; try discriminate. injection Hd as <-.
    cbn [wfv] in Hw. destruct v as [| | | | | |[p|]| | | | | |]; try contradiction.
    cbn [fits wkv] in Hf, Hk. destruct (IH Hok p d0 E Hw Hf Hk) as [L S0].
    cbn [wire enc vev]. split.
    + intros Hwt. rewrite walk_with_explicit. apply L. exact Hwt.
    + intros Hwt more. rewrite walk_with_explicit. apply S0. exact Hwt.
  - (* struct *)
    destruct Hok as (Hall & Hnd & Hns).
    pose proof (struct_descriptor_fields nm n fs d Hd) as (Ht & Htn & Hx & _ & Hes).
    cbn [descriptor_of] in Hd. fold fields_descs in Hd.
    destruct (fields_descs fs) as [es| | | |] eqn:Ees; cbn [bind] in Hd; try discriminate. injection Hd as <-.
    cbn [d_elems] in Hes.
    cbn [wfv] in Hw. destruct v as [| | | | | | | |vs| | | |]; try contradiction. destruct Hw as [Hlen Hwf].
    split; [intros _|intros Hwt; exfalso; apply Hwt; reflexivity].
    cbn [enc frame_tag struct_fields vev].
    match goal with |- walk _ ?dd = wok (_ ++ ?ee ++ _) (len ?dd') =>
      change dd with (flat_map (fenc vs) fs); change dd' with (flat_map (fenc vs) fs);
      change ee with (flat_map (fev vs) fs) end.
    set (data := flat_map (fenc vs) fs).
    change (walk (Desc 0 [] FTStruct nm es false LTNone) data)
      with (let w := walk_fields (subwalk es) es false (S (length data)) data 0 false false [] in
            mkw ([EvStartObj] ++ w_ev w ++ [EvEndObj]) (w_out w)).
    cbv zeta. unfold data.
    rewrite (fields_walk fs es Hes Hnd fs vs 0 false false [] (S (length (flat_map (fenc vs) fs)))).
    + cbn [w_ev w_out wok app]. rewrite N.add_0_l. reflexivity.
    + apply incl_refl.
    + clear -Hall IH. induction IH as [|f r Hf0 Hr IHr]; [constructor|].
      destruct Hall as [(A & B & C) Hall]. constructor; [split; [exact A|split; [exact B|apply Hf0; exact A]]|apply IHr; exact Hall].
    + destruct Hf as [Hfits _]. cbn [struct_fields] in Hfits. cbn [wkv] in Hk. clear -Hwf Hfits Hk.
      induction fs as [|f r IHr]; [constructor|].
      destruct Hwf as [A Hwf]. destruct Hfits as [B Hfits]. destruct Hk as [C Hk].
      constructor; [split; [exact A|split; [exact B|exact C]]|apply IHr; assumption].
    + lia.
  - (* packed varint slice *)
    destruct Hok as [Hpv Hokc]. cbn [descriptor_of] in Hd.
    destruct (descriptor_of c) as [d0| | | |] eqn:E; cbn [bind] in Hd; try discriminate. injection Hd as <-.
    cbn [wfv] in Hw. destruct v as [| | | | | | | | |l| | |]; try contradiction.
    destruct Hf as [Hfits _]. cbn [slice_elems] in Hfits.
    split; [intros _|intros Hwt; exfalso; apply Hwt; reflexivity].
    cbn [enc frame_tag slice_elems vev].
    assert (Hpt : packed_type (d_type d0) = true).
    { destruct c; cbn [plain_varint0] in Hpv; try contradiction; inversion E; reflexivity. }
    rewrite (walk_slice_packed d0 _ Hpt). cbv zeta.
    rewrite (walk_packed_list (fun e b => walk d0 b) d0 (fun x => enc c x []) (vev c)).
    + cbn [w_ev w_out wok app]. rewrite N.add_0_l. reflexivity.
    + rewrite Forall_forall in *. intros x Hx. split.
      * rewrite (plain_varint_enc c x (pv0_pv c Hpv) (Hw x Hx)). pose proof (append_varuint_length_bounds (pv_val c x)) as Hb.
        destruct (append_varuint (pv_val c x)); [rewrite len_nil in Hb; lia|discriminate].
      * intros more. assert (Hkx : wkv c x) by (destruct c; cbn [plain_varint0] in Hpv; try contradiction; destruct x; exact I).
        destruct (IH Hokc x d0 E (Hw x Hx) (Hfits x Hx) Hkx) as [_ S0]. apply S0.
        destruct c; cbn [plain_varint0] in Hpv; try contradiction; cbn [wire]; discriminate.
    + lia.
  - (* packed fixed slice *)
    cbn [descriptor_of] in Hd.
    destruct (descriptor_of c) as [d0| | | |] eqn:E; cbn [bind] in Hd; try discriminate. injection Hd as <-.
    cbn [wfv] in Hw. destruct v as [| | | | | | | | |l| | |]; try contradiction.
    destruct Hf as (_ & Hfits & _). cbn [slice_elems] in Hfits.
    split; [intros _|intros Hwt; exfalso; apply Hwt; reflexivity].
    cbn [enc frame_tag slice_elems vev].
    assert (Hokc : walk_ok c) by (destruct c; cbn [plain_fixed] in Hok; try contradiction; exact I).
    assert (Hpt : packed_type (d_type d0) = true).
    { destruct c; cbn [plain_fixed] in Hok; try contradiction; inversion E; reflexivity. }
    rewrite (walk_slice_packed d0 _ Hpt). cbv zeta.
    rewrite (walk_packed_list (fun e b => walk d0 b) d0 (fun x => enc c x []) (vev c)).
    + cbn [w_ev w_out wok app]. rewrite N.add_0_l. reflexivity.
    + rewrite Forall_forall in *. intros x Hx. split.
      * destruct c; cbn [plain_fixed] in Hok; try contradiction; cbn [enc app];
          intros E0; apply (f_equal (@length N)) in E0; rewrite le_bytes_length in E0; discriminate.
      * intros more. assert (Hkx : wkv c x) by (destruct c; cbn [plain_fixed] in Hok; try contradiction; destruct x; exact I).
        destruct (IH Hokc x d0 E (Hw x Hx) (Hfits x Hx) Hkx) as [_ S0]. apply S0.
        destruct c; cbn [plain_fixed] in Hok; try contradiction; cbn [wire]; discriminate.
    + lia.
  - (* counted slice *)
    destruct Hok as [Hokc Hwc]. cbn [descriptor_of] in Hd.
    destruct (descriptor_of c) as [d0| | | |] eqn:E; cbn [bind] in Hd; try discriminate. injection Hd as <-.
    cbn [wfv] in Hw. destruct v as [| | | | | | | | |l| | |]; try contradiction.
    destruct Hf as [Hcnt Hfits]. cbn [slice_elems] in Hcnt, Hfits. destruct Hk as [Hc63 Hks].
    split; [intros Hwt; not_length Hwt|intros _ more].
    cbn [enc app slice_elems vev].
    rewrite (walk_slice_counted d0 _ (desc_counted c Hokc Hwc d0 E)). cbv zeta.
    rewrite <- app_assoc, read_append_varuint by exact Hcnt.
    pose proof (append_varuint_length_bounds (N.of_nat (length l))) as Hb.
    replace (Z.of_N (len (append_varuint (N.of_nat (length l)))) <? 0)%Z with false by (symmetry; apply Z.ltb_ge; lia).
    rewrite N2Z.id, go_drop_app.
    replace (N.of_nat (length l) <? two63) with true by (symmetry; apply N.ltb_lt; exact Hc63).
    rewrite (walk_counted_list (fun e b => walk d0 b) d0 (fun x => enc c x []) (vev c)).
    + cbn [w_ev w_out wok app]. rewrite len_app. reflexivity.
    + rewrite Forall_forall in *. intros x Hx. destruct (Hfits x Hx) as [Hfx Hlx]. split; [exact Hlx|].
      destruct (IH Hokc x d0 E (Hw x Hx) Hfx (Hks x Hx)) as [L _]. apply L. exact Hwc.
    + pose proof (frames_length (fun x => enc c x []) l). rewrite !app_length. lia.
  - (* map *)
    destruct Hok as (Hokk & Hokv & Hkey). cbn [descriptor_of] in Hd.
    destruct (descriptor_of kc) as [kd| | | |] eqn:Ek; cbn [bind] in Hd; try discriminate.
    destruct (descriptor_of vc) as [vd| | | |] eqn:Ev; cbn [bind] in Hd; try discriminate. injection Hd as <-.
    cbn [wfv] in Hw. destruct v as [| | | | | | | | | |[es|]| |]; try contradiction.
    destruct Hf as [Hcnt Hfe]. cbn [map_entries_of] in Hcnt, Hfe. destruct Hk as [Hc63 Hks].
    split; [intros Hwt; not_length Hwt|intros _ more].
    cbn [enc app].
    change (flat_map (fun e : val * val => lenframe ((if omit kc (fst e) then [] else enc kc (fst e) (field_tag kc 1))
                                                     ++ (if omit vc (snd e) then [] else enc vc (snd e) (field_tag vc 2)))) es)
      with (flat_map (fun e => lenframe (entry_body kc vc e)) es).
    rewrite walk_map_outer. cbv zeta.
    rewrite <- app_assoc, read_append_varuint by exact Hcnt.
    pose proof (append_varuint_length_bounds (N.of_nat (length es))) as Hb.
    replace (Z.of_N (len (append_varuint (N.of_nat (length es)))) <? 0)%Z with false by (symmetry; apply Z.ltb_ge; lia).
    rewrite N2Z.id, go_drop_app.
    replace (N.of_nat (length es) <? two63) with true by (symmetry; apply N.ltb_lt; exact Hc63).
    set (kd' := with_field 1 _ kd). set (vd' := with_field 2 _ vd).
    set (ed := Desc 0 [] FTStruct _ [kd'; vd'] false LTMapEntry).
    assert (Hkt : d_type kd' = d_type kd) by (unfold kd'; destruct kd; reflexivity).
    destruct Hkey as [->|Hs].
    + (* string keys: an object *)
      injection Ek as <-. rewrite Hkt. change (d_type (simple FTString LTNone) =? FTString) with true. cbv iota.
      rewrite (walk_counted_list (fun e b => walk ed b) ed (fun e => entry_body CString vc e)
                 (fun e => EvStr (str_of (fst e)) :: (if omit vc (snd e) then zev vc else vev vc (snd e)))).
      * cbn [w_ev w_out wok app vev]. rewrite len_app. reflexivity.
      * rewrite Forall_forall in *. intros [k x] He. destruct (Hfe _ He) as (Hfk & Hfx & Hl). destruct (Hw _ He) as [Hwk Hwx].
        destruct (Hks _ He) as [_ Hkx]. cbn [fst snd] in *. split; [exact Hl|].
        unfold ed. rewrite walk_entry_obj by (try (rewrite Hkt; reflexivity); reflexivity).
        assert (Hk0 : exists s, k = VStr s /\ len s < two64).
        { destruct Hwk as [Ho|Hwk].
          - destruct k; cbn [omit] in Ho; try discriminate. exists s. split; [reflexivity|]. exact Hfk.
          - cbn [wfv] in Hwk. destruct k; try contradiction. exists s. split; [reflexivity|]. exact Hfk. }
        destruct Hk0 as (s & -> & Hls). cbn [str_of].
        pose proof (walk_string_entry vc vd Hokv (IHv Hokv) Ev s x (S (length (entry_body CString vc (VStr s, x)))) Hls Hwx Hfx Hkx) as HE.
        cbv zeta in HE.
        assert (HE2 : walk_fields (subwalk [kd'; vd']) [kd'; vd'] true (S (length (entry_body CString vc (VStr s, x))))
                        (entry_body CString vc (VStr s, x)) 0 false false []
                      = wok (EvStr s :: mval vc vd x) (len (entry_body CString vc (VStr s, x)))) by (apply HE; lia).
        rewrite HE2. unfold mval, missing_val.
        destruct (omit vc x) eqn:Eo; [|reflexivity].
        destruct (d_explicit vd) eqn:Ex; [|reflexivity].
        apply (explicit_presence_iff vc vd Ev) in Ex. destruct Ex as [[c' ->]|[c' ->]]; reflexivity.
      * pose proof (frames_length (fun e => entry_body CString vc e) es). rewrite !app_length. lia.
    + (* other keys: a list of key/value objects *)
      rewrite Hkt, (strkey_type kc kd Hs Ek). cbv iota.
      set (pfs := [mkfld 0 1 (ascii "key") kc; mkfld 1 2 (ascii "value") vc]).
      rewrite (walk_counted_list (fun e b => walk ed b) ed (fun e => entry_body kc vc e)
                 (fun e => [EvStartObj] ++ (if omit kc (fst e) then [] else EvName (ascii "key") :: vev kc (fst e))
                           ++ (if omit vc (snd e) then [] else EvName (ascii "value") :: vev vc (snd e)) ++ [EvEndObj])).
      * assert (Hne : match kc with CString => False | _ => True end) by (destruct kc; try exact I; discriminate Hs).
        cbn [w_ev w_out wok app]. rewrite len_app. destruct kc; try contradiction; reflexivity.
      * rewrite Forall_forall in *. intros [k x] He. destruct (Hfe _ He) as (Hfk & Hfx & Hl). destruct (Hw _ He) as [Hwk Hwx].
        destruct (Hks _ He) as [Hkk Hkx]. cbn [fst snd] in *. split; [exact Hl|].
        unfold ed. rewrite walk_entry_pair by (rewrite Hkt; apply (strkey_type kc kd Hs Ek)).
        assert (Hes : Forall2 (fun f e => exists d0, descriptor_of (f_codec f) = Ok d0 /\ e = with_field (f_index f) (f_name f) d0) pfs [kd'; vd']).
        { constructor; [exists kd; auto|]. constructor; [exists vd; auto|constructor]. }
        assert (Hnd : NoDup (map (fun f => f_index f) pfs)) by (repeat constructor; cbn; intuition discriminate).
        assert (Ebody : entry_body kc vc (k, x) = flat_map (fenc [k; x]) pfs).
        { unfold entry_body, pfs, fenc, slot. cbn [flat_map fst snd f_codec f_slot f_index nth]. rewrite app_nil_r. reflexivity. }
        cbv zeta. rewrite Ebody.
        rewrite (fields_walk pfs [kd'; vd'] Hes Hnd pfs [k; x] 0 false false [] (S (length (flat_map (fenc [k; x]) pfs)))).
        -- cbn [w_ev w_out wok app]. rewrite N.add_0_l. unfold pfs, fev, slot.
           cbn [flat_map f_codec f_slot f_name nth]. rewrite app_nil_r, <- app_assoc. reflexivity.
        -- apply incl_refl.
        -- unfold pfs. constructor; [cbn [f_codec f_index]; split; [exact Hokk|split; [lia|apply IHk; exact Hokk]]|].
           constructor; [cbn [f_codec f_index]; split; [exact Hokv|split; [lia|apply IHv; exact Hokv]]|constructor].
        -- unfold pfs, slot. constructor; [cbn [f_codec f_slot nth]; repeat split; assumption|].
           constructor; [cbn [f_codec f_slot nth]; repeat split; assumption|constructor].
        -- lia.
      * pose proof (frames_length (fun e => entry_body kc vc e) es). rewrite !app_length. lia.
  - (* JSON object *)
    cbn [wfv] in Hw. destruct v as [| | | | | | | | | | |nm j|]; try contradiction. destruct j as [| | | | | |l|]; try contradiction.
    cbn [fits wkv] in Hf, Hk. split; [intros Hwt; not_length Hwt|intros _ more].
    cbn [vev]. apply walk_desc_jmap; assumption.
  - (* JSON array *)
    cbn [wfv] in Hw. destruct v as [| | | | | | | | | | |nm j|]; try contradiction. destruct j as [| | | | |l| |]; try contradiction.
    cbn [fits wkv] in Hf, Hk. split; [intros Hwt; not_length Hwt|intros _ more].
    cbn [vev]. apply walk_desc_jarr; assumption.
Qed.

(** ** through the JSON outputter: the value in the JSON data model *)

Section Render.
  Variable tok : ev -> bytes.

  (** structs as objects keyed by field name with omitted fields absent, slices
      as arrays element for element, pointers as their target, strings as
      strings, everything else as the token strconv / time print for it *)
  Fixpoint vtree (c : codec) (v : val) {struct c} : jt :=
    match c, v with
    | (CString | CBytes), VStr s => TScalar (SStr s)
    | CPtr c', VPtr (Some p) => vtree c' p
    | CNull c', VNull true p => vtree c' p
    | CStruct _ _ fs, VStruct vs =>
      TObj (flat_map (fun f => if omit (f_codec f) (slot vs (f_slot f)) then []
                               else [(f_name f, vtree (f_codec f) (slot vs (f_slot f)))]) fs)
    | (CSliceVar c' | CSliceFix c' | CSliceLen c'), VSlice l => TArr (map (vtree c') l)
    | CJMap, VJson _ (JObj l) => jtree tok (JObj l)
    | CJArr, VJson _ (JArr l) => jtree tok (JArr l)
    | _, _ => TScalar (STok (match vev c v with e :: _ => tok e | [] => [] end))
    end.

  (** maps render through the outputter's key / value state rather than as a
      call tree of this shape: the rendering theorem is about map-free types *)
  Fixpoint nomaps (c : codec) : bool :=
    match c with
    | CMap _ _ | CMapProto _ _ => false
    | CNull c' | CPtr c' | CSliceVar c' | CSliceFix c' | CSliceLen c' | CSliceProto c' => nomaps c'
    | CStruct _ _ fs => forallb (fun f => nomaps (f_codec f)) fs
    | _ => true
    end.

  Lemma vev_ops : forall c, walk_ok c -> nomaps c = true -> forall v, wfv c v -> map (oop_of tok) (vev c v) = ops_of (vtree c v).
  Proof.
    induction c as [ |b|b|b| | | | |compat| |c IH|c IH|nm n fs IH|c IH|c IH|c IH|c IH|kc vc IHk IHv|kc vc IHk IHv| | | ]
      using codec_ind'; intros Hok Hnm v Hw; cbn [walk_ok] in Hok; try contradiction; cbn [nomaps] in Hnm; try discriminate Hnm; cbn [wfv] in Hw.
    - destruct v; try contradiction; reflexivity.
    - destruct v; try contradiction; reflexivity.
    - destruct v; try contradiction; reflexivity.
    - destruct v; try contradiction; reflexivity.
    - destruct v; try contradiction; reflexivity.
    - destruct v; try contradiction; reflexivity.
    - destruct v; try contradiction; reflexivity.
    - destruct v; try contradiction; reflexivity.
    - destruct v; try contradiction; reflexivity.
    - destruct v as [| | | | | | |[|] p| | | | |]; try contradiction. cbn [vev vtree]. apply IH; assumption.
    - destruct v as [| | | | | |[p|]| | | | | |]; try contradiction. cbn [vev vtree]. apply IH; assumption.
    - destruct v as [| | | | | | | |vs| | | |]; try contradiction. destruct Hw as [_ Hw]. destruct Hok as [Hall _].
      cbn [vev vtree ops_of]. rewrite map_app. cbn [map oop_of]. f_equal. rewrite map_app. cbn [map oop_of]. f_equal.
      induction IH as [|f r Hf Hr IHr]; [reflexivity|].
      cbn [forallb] in Hnm. apply andb_true_iff in Hnm. destruct Hnm as [Hn1 Hn2].
      destruct Hall as [(A & _) Hall]. destruct Hw as [Hwf Hw]. cbn [flat_map].
      rewrite map_app, (IHr Hall Hn2 Hw).
      destruct (omit (f_codec f) (slot vs (f_slot f))) eqn:Eo; [reflexivity|].
      destruct Hwf as [Hwf|Hwf]; [congruence|]. cbn [map oop_of flat_map app fst snd].
      rewrite (Hf A Hn1 _ Hwf). reflexivity.
    - destruct v as [| | | | | | | | |l| | |]; try contradiction. destruct Hok as [_ Hokc].
      cbn [vev vtree ops_of]. rewrite map_app. cbn [map oop_of]. f_equal. rewrite map_app. cbn [map oop_of]. f_equal.
      induction Hw as [|x l Hx Hl IHl]; [reflexivity|]. cbn [flat_map map]. rewrite map_app, IHl, (IH Hokc Hnm x Hx). reflexivity.
    - destruct v as [| | | | | | | | |l| | |]; try contradiction.
      assert (Hokc : walk_ok c) by (destruct c; cbn [plain_fixed] in Hok; try contradiction; exact I).
      cbn [vev vtree ops_of]. rewrite map_app. cbn [map oop_of]. f_equal. rewrite map_app. cbn [map oop_of]. f_equal.
      induction Hw as [|x l Hx Hl IHl]; [reflexivity|]. cbn [flat_map map]. rewrite map_app, IHl, (IH Hokc Hnm x Hx). reflexivity.
    - destruct v as [| | | | | | | | |l| | |]; try contradiction. destruct Hok as [Hokc _].
      cbn [vev vtree ops_of]. rewrite map_app. cbn [map oop_of]. f_equal. rewrite map_app. cbn [map oop_of]. f_equal.
      induction Hw as [|x l Hx Hl IHl]; [reflexivity|]. cbn [flat_map map]. rewrite map_app, IHl, (IH Hokc Hnm x Hx). reflexivity.
    - destruct v as [| | | | | | | | | | |nm j|]; try contradiction. destruct j as [| | | | | |l|]; try contradiction.
      cbn [vev vtree]. apply jev_ops.
    - destruct v as [| | | | | | | | | | |nm j|]; try contradiction. destruct j as [| | | | |l| |]; try contradiction.
      cbn [vev vtree]. apply jev_ops.
  Qed.

  (** C13, end to end for a struct type: Marshal's output, walked with the
      type's Descriptor into a new JSON outputter, is consumed exactly and
      renders the value's image in the JSON data model *)
  Theorem walk_renders_struct : forall nm n fs vs d,
    walk_ok (CStruct nm n fs) -> nomaps (CStruct nm n fs) = true -> descriptor_of (CStruct nm n fs) = Ok d ->
    wfv (CStruct nm n fs) (VStruct vs) -> fits (CStruct nm n fs) (VStruct vs) -> wkv (CStruct nm n fs) (VStruct vs) ->
    let data := enc (CStruct nm n fs) (VStruct vs) [] in
    let w := walk d data in
    w_out w = Ok (len data) /\
    (do j <- o_run jout_init (map (oop_of tok) (w_ev w)); o_done j)
    = Ok (render 0 false (vtree (CStruct nm n fs) (VStruct vs)) ++ [10]).
  Proof.
    intros nm n fs vs d Hok Hnm Hd Hw Hf Hk data w.
    destruct (walk_enc _ Hok (VStruct vs) d Hd Hw Hf Hk) as [L _]. specialize (L eq_refl).
    unfold w, data. rewrite L. cbn [w_out w_ev wok]. split; [reflexivity|].
    rewrite (vev_ops _ Hok Hnm _ Hw). apply output_render.
  Qed.
End Render.

