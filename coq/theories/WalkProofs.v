(** C13: walking Marshal's output with the type's Descriptor emits exactly the
    Outputter calls of the value, for structs (any nesting), pointers, packed
    and counted slices and every scalar leaf.  Maps, the protobuf forms, the
    null.* wrappers and narrow `flat` integers are outside this fragment (the
    last three are known findings D31 / D17d or are decided by the correspondence). *)
From Plenc Require Import Base Varint Wire VarintProofs WireProofs JsonAny Codec SizeProofs DecBase
  RoundTripBase RoundTrip Descriptor DescProofs JsonRoundTrip.
Open Scope N_scope.

(** ** the Outputter calls of a value *)
Fixpoint vev (c : codec) (v : val) {struct c} : list ev :=
  match c, v with
  | CBool, VBool b => [EvBool b]
  | CInt _, VInt z => [EvInt z]
  | CUint _, VInt z => [EvUint (Z.to_N z)]
  | CFlat _, VInt z => [EvInt z]
  | CF32, VF32 b => [EvF32 b]
  | CF64, VF64 b => [EvF64 b]
  | (CString | CBytes), VStr s => [EvStr s]
  | CTime _, VTime s n => [EvTime s n]
  | CPtr c', VPtr (Some p) => vev c' p
  | CStruct _ _ fs, VStruct vs =>
    [EvStartObj]
    ++ flat_map (fun f => if omit (f_codec f) (slot vs (f_slot f)) then []
                          else EvName (f_name f) :: vev (f_codec f) (slot vs (f_slot f))) fs
    ++ [EvEndObj]
  | (CSliceVar c' | CSliceFix c' | CSliceLen c'), VSlice l =>
    [EvStartArr] ++ flat_map (vev c') l ++ [EvEndArr]
  | _, _ => []
  end.

(** ** the fragment *)
Fixpoint walk_ok (c : codec) {struct c} : Prop :=
  match c with
  | CBool | CF32 | CF64 | CString | CBytes | CTime false => True
  | CInt b | CUint b => bits_ok b
  | CFlat b => b = 64
  | CPtr c' => walk_ok c'
  | CStruct _ n fs =>
    (fix all (l : list (fld codec)) : Prop :=
       match l with
       | [] => True
       | f :: r => (walk_ok (f_codec f) /\ (0 <= f_index f < 2305843009213693952)%Z /\ (f_slot f < n)%nat) /\ all r
       end) fs
    /\ NoDup (map (fun f => f_index f) fs) /\ NoDup (map (fun f => f_slot f) fs)
  | CSliceVar c' => plain_varint c' /\ walk_ok c'
  | CSliceFix c' => plain_fixed c'
  | CSliceLen c' => walk_ok c' /\ wire c' = WTLength
  | _ => False
  end.

Lemma walk_ok_top : forall c, walk_ok c -> top_ok c.
Proof. destruct c; cbn [walk_ok top_ok]; auto. Qed.

Lemma walk_ok_rt : forall c, walk_ok c -> rt_ok c.
Proof.
  induction c as [ |b|b|b| | | | |compat| |c IH|c IH|nm n fs IH|c IH|c IH|c IH|c IH|kc vc IHk IHv|kc vc IHk IHv| | | ]
    using codec_ind'; cbn [walk_ok rt_ok]; intros H; auto; try contradiction.
  - subst. unfold bits_ok. auto.
  - split; [apply IH; exact H|apply walk_ok_top; exact H].
  - destruct H as (Hall & H1 & H2). split; [|split; assumption]. clear H1 H2.
    induction IH as [|f r Hf Hr IHr]; [exact I|]. destruct Hall as [(A & B & C) Hall]. split; [split; auto|apply IHr; exact Hall].
  - apply H.
  - destruct H as [A B]. split; [apply IH; exact A|]. split; [exact B|apply walk_ok_top; exact A].
Qed.

(** container lengths fit Go's int *)
Fixpoint wkv (c : codec) (v : val) {struct c} : Prop :=
  match c, v with
  | CPtr c', VPtr (Some p) => wkv c' p
  | CStruct _ _ fs, VStruct vs =>
    (fix all (l : list (fld codec)) : Prop :=
       match l with [] => True | f :: r => wkv (f_codec f) (slot vs (f_slot f)) /\ all r end) fs
  | CSliceLen c', VSlice l => N.of_nat (length l) < two63 /\ Forall (wkv c') l
  | _, _ => True
  end.

(** ** the root's index, name and explicit flag do not influence the walk *)
Lemma walk_with_field i n d data : walk (with_field i n d) data = walk d data.
Proof. destruct d. reflexivity. Qed.
Lemma walk_with_explicit d data : walk (with_explicit d) data = walk d data.
Proof. destruct d. reflexivity. Qed.

(** ** one field through readAsStruct *)
Lemma walk_fields_unfold walkd es f rest consumed hk hv acc : rest <> [] ->
  walk_fields walkd es false (S f) rest consumed hk hv acc =
  (let '(wt, index, n) := read_tag rest in
   if (n <=? 0)%Z then werr acc else
   match go_drop "Descriptor.readAsStruct" (Z.to_N n) rest with
   | Ok rest1 =>
     let c1 := consumed + Z.to_N n in
     match find_elem es index with
     | None =>
       match skip rest1 wt with
       | Ok k => match go_drop "Descriptor.readAsStruct" k rest1 with
                 | Ok rest2 => walk_fields walkd es false f rest2 (c1 + k) hk hv acc
                 | r => wfail acc r
                 end
       | r => wfail acc r
       end
     | Some elt =>
       let body (fdata after : bytes) (c2 : N) :=
         let pre := acc ++ [EvName (d_name elt)] in
         let w := walkd elt fdata in
         match w_out w with
         | Ok used =>
           match go_drop "Descriptor.readAsStruct" used after with
           | Ok rest3 => walk_fields walkd es false f rest3 (c2 + used) hk hv (pre ++ w_ev w)
           | r => wfail (pre ++ w_ev w) r
           end
         | r => mkw (pre ++ w_ev w) (match r with Ok _ => Err | x => x end)
         end in
       if wt =? WTLength then
         let '(l, k) := read_varuint rest1 in
         if (k <=? 0)%Z then werr acc else
         match go_drop "Descriptor.readAsStruct" (Z.to_N k) rest1 with
         | Ok rest2 =>
           if len rest2 <? l then werr acc else
           match go_take "Descriptor.readAsStruct" l rest2 with
           | Ok fdata => body fdata rest2 (c1 + Z.to_N k)
           | r => wfail acc r
           end
         | r => wfail acc r
         end
       else body rest1 rest1 c1
     end
   | r => wfail acc r
   end).
Proof.
  intros H. destruct rest as [|b0 rest0]; [congruence|]. cbn [walk_fields andb].
  destruct (read_tag (b0 :: rest0)) as [[wt index] n]. destruct (n <=? 0)%Z; [reflexivity|].
  destruct (go_drop "Descriptor.readAsStruct" (Z.to_N n) (b0 :: rest0)); try reflexivity.
  destruct (find_elem es index); [|reflexivity].
  rewrite !Bool.orb_false_r. reflexivity.
Qed.

(** [WKc c]: the walk of codec [c]'s descriptor over [c]'s own encoding, in the
    form the wire type calls for (as [RTc] in RoundTrip.v) *)
Definition WKc (c : codec) : Prop :=
  forall v d, descriptor_of c = Ok d -> wfv c v -> fits c v -> wkv c v ->
  (wire c = WTLength -> walk d (enc c v []) = wok (vev c v) (len (enc c v []))) /\
  (wire c <> WTLength -> forall more, walk d (enc c v [] ++ more) = wok (vev c v) (len (enc c v []))).

Section FieldWalk.
  Variable walkd : desc -> bytes -> wres.
  Variable es : list desc.

  Lemma field_walk_step : forall c idx name d0 fv more consumed hk hv acc fuel,
    rt_ok c -> top_ok c -> (0 <= idx < 2305843009213693952)%Z ->
    find_elem es idx = Some (with_field idx name d0) ->
    (forall b, walkd (with_field idx name d0) b = walk d0 b) ->
    descriptor_of c = Ok d0 -> WKc c -> wfv c fv -> fits c fv -> wkv c fv ->
    let e := enc c fv (field_tag c idx) in
    (length (e ++ more) < S fuel)%nat ->
    walk_fields walkd es false (S fuel) (e ++ more) consumed hk hv acc
    = walk_fields walkd es false fuel more (consumed + len e) hk hv (acc ++ EvName name :: vev c fv).
  Proof.
    intros c idx name d0 fv more consumed hk hv acc fuel Hok Htop Hidx Hfind Hwd Hd Hwk Hw Hf Hk e Hfuel.
    set (tg := field_tag c idx) in *.
    destruct (tagged_enc_shape c Hok Htop fv idx Hw Hf) as [ShL ShS]. fold tg in ShL, ShS.
    destruct (Hwk fv d0 Hd Hw Hf Hk) as [WkL WkS].
    pose proof (field_tag_nonempty c idx) as Htg. fold tg in Htg.
    assert (Hname : d_name (with_field idx name d0) = name) by (destruct d0; reflexivity).
    assert (Hstep : forall payload, e = tg ++ payload ->
              walk_fields walkd es false (S fuel) (e ++ more) consumed hk hv acc =
              (let body (fdata after : bytes) (c2 : N) :=
                 let pre := acc ++ [EvName name] in
                 let w := walk d0 fdata in
                 match w_out w with
                 | Ok used =>
                   match go_drop "Descriptor.readAsStruct" used after with
                   | Ok rest3 => walk_fields walkd es false fuel rest3 (c2 + used) hk hv (pre ++ w_ev w)
                   | r => wfail (pre ++ w_ev w) r
                   end
                 | r => mkw (pre ++ w_ev w) (match r with Ok _ => Err | x => x end)
                 end in
               if wire c =? WTLength then
                 let '(l, k) := read_varuint (payload ++ more) in
                 if (k <=? 0)%Z then werr acc else
                 match go_drop "Descriptor.readAsStruct" (Z.to_N k) (payload ++ more) with
                 | Ok rest2 =>
                   if len rest2 <? l then werr acc else
                   match go_take "Descriptor.readAsStruct" l rest2 with
                   | Ok fdata => body fdata rest2 (consumed + len tg + Z.to_N k)
                   | r => wfail acc r
                   end
                 | r => wfail acc r
                 end
               else body (payload ++ more) (payload ++ more) (consumed + len tg))).
    { intros payload Ee. rewrite Ee, <- app_assoc.
      rewrite walk_fields_unfold.
      2:{ intros E0. apply (f_equal (@length N)) in E0. rewrite app_length in E0. unfold len in Htg. cbn [length] in E0. lia. }
      unfold tg at 1. rewrite read_tag_field by exact Hidx. fold tg. cbv beta iota.
      replace (Z.of_N (len tg) <=? 0)%Z with false by (symmetry; apply Z.leb_gt; lia).
      rewrite N2Z.id, go_drop_app. rewrite Hfind. cbv zeta. rewrite Hname.
      destruct (wire c =? WTLength); [|rewrite Hwd; reflexivity].
      destruct (read_varuint (payload ++ more)) as [l k]. destruct (k <=? 0)%Z; [reflexivity|].
      destruct (go_drop "Descriptor.readAsStruct" (Z.to_N k) (payload ++ more)) as [r2| | | |]; try reflexivity.
      destruct (len r2 <? l); [reflexivity|].
      destruct (go_take "Descriptor.readAsStruct" l r2); try reflexivity. rewrite Hwd. reflexivity. }
    destruct (N.eq_dec (wire c) WTLength) as [Hwt|Hwt].
    - destruct (ShL Hwt) as [Ee Hlen]. rewrite (Hstep _ Ee). cbv zeta.
      replace (wire c =? WTLength) with true by (symmetry; apply N.eqb_eq; exact Hwt).
      rewrite <- app_assoc, read_append_varuint by exact Hlen.
      pose proof (append_varuint_length_bounds (len (enc c fv []))) as Hvb.
      replace (Z.of_N (len (append_varuint (len (enc c fv [])))) <=? 0)%Z with false by (symmetry; apply Z.leb_gt; lia).
      rewrite N2Z.id, go_drop_app.
      rewrite len_app. replace (len (enc c fv []) + len more <? len (enc c fv [])) with false by (symmetry; apply N.ltb_ge; lia).
      rewrite go_take_app. rewrite (WkL Hwt). cbn [w_out w_ev wok]. rewrite go_drop_app.
      rewrite <- app_assoc. cbn [app]. f_equal. unfold e. rewrite Ee, !len_app. lia.
    - pose proof (ShS Hwt) as Ee. rewrite (Hstep _ Ee). cbv zeta.
      replace (wire c =? WTLength) with false by (symmetry; apply N.eqb_neq; exact Hwt).
      rewrite (WkS Hwt more). cbn [w_out w_ev wok]. rewrite go_drop_app.
      rewrite <- app_assoc. cbn [app]. f_equal. unfold e. rewrite Ee, !len_app. lia.
  Qed.
End FieldWalk.

(** ** all fields of a struct *)
Definition fev (vs : list val) (f : fld codec) : list ev :=
  if omit (f_codec f) (slot vs (f_slot f)) then []
  else EvName (f_name f) :: vev (f_codec f) (slot vs (f_slot f)).

Definition subwalk : list desc -> desc -> bytes -> wres :=
  fix subwalk (l : list desc) (e : desc) (b : bytes) : wres :=
    match l with
    | [] => werr []
    | x :: r => if (d_index x =? d_index e)%Z then walk x b else subwalk r e b
    end.

Lemma subwalk_found : forall es idx elt b,
  find_elem es idx = Some elt -> subwalk es elt b = walk elt b.
Proof.
  induction es as [|x r IH]; intros idx elt b H; [discriminate|].
  unfold find_elem in H. cbn [find] in H. cbn [subwalk].
  destruct (d_index x =? idx)%Z eqn:E.
  - inversion H; subst. rewrite Z.eqb_refl. reflexivity.
  - fold (find_elem r idx) in H. pose proof (find_some _ _ H) as [_ Hi]. apply Z.eqb_eq in Hi.
    rewrite Hi, E. apply (IH idx); exact H.
Qed.

Lemma find_elem_field : forall fs es f d0,
  Forall2 (fun f e => exists d0, descriptor_of (f_codec f) = Ok d0 /\ e = with_field (f_index f) (f_name f) d0) fs es ->
  NoDup (map (fun f => f_index f) fs) -> In f fs -> descriptor_of (f_codec f) = Ok d0 ->
  find_elem es (f_index f) = Some (with_field (f_index f) (f_name f) d0).
Proof.
  intros fs es f d0 H. revert f d0. induction H as [|g e fs es (dg & Hdg & He) Hrest IH]; intros f d0 Hnd Hin Hd; [destruct Hin|].
  unfold find_elem. cbn [find]. subst e.
  destruct (with_field_keeps (f_index g) (f_name g) dg) as (Hi & _). rewrite Hi.
  destruct (f_index g =? f_index f)%Z eqn:E.
  - destruct Hin as [<-|Hin]; [congruence|].
    exfalso. apply Z.eqb_eq in E. inversion Hnd as [|? ? Hnot _]; subst. apply Hnot. rewrite E.
    apply in_map_iff. exists f. auto.
  - destruct Hin as [<-|Hin]; [rewrite Z.eqb_refl in E; discriminate|].
    inversion Hnd; subst. apply (IH f d0); assumption.
Qed.

Lemma forall2_desc_of : forall fs es f,
  Forall2 (fun f e => exists d0, descriptor_of (f_codec f) = Ok d0 /\ e = with_field (f_index f) (f_name f) d0) fs es ->
  In f fs -> exists d0, descriptor_of (f_codec f) = Ok d0.
Proof.
  intros fs es f H. induction H as [|g e fs' es' (dg & Hdg & _) _ IHf]; intros Hin; [destruct Hin|].
  destruct Hin as [<-|Hin]; [eauto|apply IHf; exact Hin].
Qed.

Lemma walk_fields_nil walkd es fuel consumed hk hv acc :
  walk_fields walkd es false fuel [] consumed hk hv acc = wok acc consumed.
Proof. destruct fuel; reflexivity. Qed.

Section FieldsWalk.
  Variable fs : list (fld codec).
  Variable es : list desc.
  Hypothesis Hes : Forall2 (fun f e => exists d0, descriptor_of (f_codec f) = Ok d0 /\ e = with_field (f_index f) (f_name f) d0) fs es.
  Hypothesis Hnd : NoDup (map (fun f => f_index f) fs).

  Lemma fields_walk : forall (l : list (fld codec)) vs consumed hk hv acc fuel,
    incl l fs ->
    Forall (fun f => walk_ok (f_codec f) /\ (0 <= f_index f < 2305843009213693952)%Z /\ WKc (f_codec f)) l ->
    Forall (fun f => (omit (f_codec f) (slot vs (f_slot f)) = true \/ wfv (f_codec f) (slot vs (f_slot f)))
                     /\ fits (f_codec f) (slot vs (f_slot f)) /\ wkv (f_codec f) (slot vs (f_slot f))) l ->
    (length (flat_map (fenc vs) l) < fuel)%nat ->
    walk_fields (subwalk es) es false fuel (flat_map (fenc vs) l) consumed hk hv acc
    = wok (acc ++ flat_map (fev vs) l) (consumed + len (flat_map (fenc vs) l)).
  Proof.
    induction l as [|f r IH]; intros vs consumed hk hv acc fuel Hincl Hc Hv Hfuel.
    - cbn [flat_map]. rewrite len_nil, N.add_0_r, app_nil_r. apply walk_fields_nil.
    - inversion Hc as [|? ? (Hok & Hidx & Hwk) Hc']; subst.
      inversion Hv as [|? ? (Hwo & Hfit & Hkv) Hv']; subst.
      assert (Hin : In f fs) by (apply Hincl; left; reflexivity).
      assert (Hincl' : incl r fs) by (intros x Hx; apply Hincl; right; exact Hx).
      cbn [flat_map]. unfold fenc at 1 3, fev at 1. cbv zeta.
      cbn [flat_map] in Hfuel. unfold fenc at 1 in Hfuel. cbv zeta in Hfuel.
      destruct (omit (f_codec f) (slot vs (f_slot f))) eqn:Eo.
      + cbn [app]. apply IH; auto.
      + destruct Hwo as [Hwo|Hw]; [congruence|].
        destruct (forall2_desc_of fs es f Hes Hin) as [d0 Hd].
        pose proof (find_elem_field fs es f d0 Hes Hnd Hin Hd) as Hfind.
        destruct fuel as [|fuel']; [lia|].
        rewrite (field_walk_step (subwalk es) es (f_codec f) (f_index f) (f_name f) d0 (slot vs (f_slot f))
                   (flat_map (fenc vs) r) consumed hk hv acc fuel' (walk_ok_rt _ Hok) (walk_ok_top _ Hok) Hidx Hfind).
        * assert (Hlt : (length (flat_map (fenc vs) r) < fuel')%nat).
          { rewrite app_length in Hfuel.
            pose proof (field_tag_nonempty (f_codec f) (f_index f)) as Htg.
            destruct (tagged_enc_shape (f_codec f) (walk_ok_rt _ Hok) (walk_ok_top _ Hok) (slot vs (f_slot f)) (f_index f) Hw Hfit) as [ShL ShS].
            assert (1 <= length (enc (f_codec f) (slot vs (f_slot f)) (field_tag (f_codec f) (f_index f))))%nat.
            { destruct (N.eq_dec (wire (f_codec f)) WTLength) as [Hwt|Hwt].
              - destruct (ShL Hwt) as [-> _]. rewrite app_length. unfold len in Htg. lia.
              - rewrite (ShS Hwt). rewrite app_length. unfold len in Htg. lia. }
            lia. }
          rewrite IH; auto.
          rewrite len_app, N.add_assoc, <- app_assoc. reflexivity.
        * intros b. rewrite (subwalk_found es (f_index f) _ b Hfind). apply walk_with_field.
        * exact Hd.
        * exact Hwk.
        * exact Hw.
        * exact Hfit.
        * exact Hkv.
        * exact Hfuel.
  Qed.
End FieldsWalk.

(** ** scalar leaves *)
Lemma walk_leaf_int u more : u < two64 ->
  walk (simple FTInt LTNone) (append_varuint u ++ more) = wok [EvInt (zagzig u)] (len (append_varuint u)).
Proof.
  intros Hu. unfold walk, simple, walk_scalar, d_type, FTInt. cbn [N.eqb].
  rewrite read_append_varuint by exact Hu. pose proof (append_varuint_length_bounds u).
  replace (Z.of_N (len (append_varuint u)) <? 0)%Z with false by (symmetry; apply Z.ltb_ge; lia).
  rewrite N2Z.id. reflexivity.
Qed.
Lemma walk_leaf_uint u more : u < two64 ->
  walk (simple FTUint LTNone) (append_varuint u ++ more) = wok [EvUint u] (len (append_varuint u)).
Proof.
  intros Hu. unfold walk, simple, walk_scalar, d_type, FTUint, FTInt, FTFlatInt. cbn [N.eqb Pos.eqb].
  rewrite read_append_varuint by exact Hu. pose proof (append_varuint_length_bounds u).
  replace (Z.of_N (len (append_varuint u)) <? 0)%Z with false by (symmetry; apply Z.ltb_ge; lia).
  rewrite N2Z.id. reflexivity.
Qed.
Lemma walk_leaf_flat u more : u < two64 ->
  walk (simple FTFlatInt LTNone) (append_varuint u ++ more) = wok [EvInt (s64 u)] (len (append_varuint u)).
Proof.
  intros Hu. unfold walk, simple, walk_scalar, d_type, d_logical, FTUint, FTInt, FTFlatInt, LTNone, LTTimestamp. cbn [N.eqb Pos.eqb].
  rewrite read_append_varuint by exact Hu. pose proof (append_varuint_length_bounds u).
  replace (Z.of_N (len (append_varuint u)) <? 0)%Z with false by (symmetry; apply Z.ltb_ge; lia).
  rewrite N2Z.id. reflexivity.
Qed.
Lemma walk_leaf_bool u more : u < two64 ->
  walk (simple FTBool LTNone) (append_varuint u ++ more) = wok [EvBool (negb (u =? 0))] (len (append_varuint u)).
Proof.
  intros Hu. unfold walk, simple, walk_scalar, d_type, FTUint, FTInt, FTFlatInt, FTBool. cbn [N.eqb Pos.eqb].
  rewrite read_append_varuint by exact Hu. pose proof (append_varuint_length_bounds u).
  replace (Z.of_N (len (append_varuint u)) <? 0)%Z with false by (symmetry; apply Z.ltb_ge; lia).
  rewrite N2Z.id. reflexivity.
Qed.

Lemma firstn_le n b (more : bytes) : firstn n (le_bytes n b ++ more) = le_bytes n b.
Proof.
  replace n with (length (le_bytes n b)) at 1 by apply le_bytes_length.
  rewrite firstn_app, Nat.sub_diag, firstn_all. cbn [firstn]. apply app_nil_r.
Qed.

Lemma walk_leaf_f32 b more : b < 4294967296 ->
  walk (simple FTFloat32 LTNone) (le_bytes 4 b ++ more) = wok [EvF32 b] 4.
Proof.
  intros Hb. unfold walk, simple, walk_scalar, d_type, FTUint, FTInt, FTFlatInt, FTBool, FTFloat32. cbn [N.eqb Pos.eqb].
  rewrite len_app, len_le_bytes. replace (N.of_nat 4 + len more <? 4) with false by (symmetry; apply N.ltb_ge; lia).
  rewrite (firstn_le 4), le_value_bytes by exact Hb. reflexivity.
Qed.
Lemma walk_leaf_f64 b more : b < two64 ->
  walk (simple FTFloat64 LTNone) (le_bytes 8 b ++ more) = wok [EvF64 b] 8.
Proof.
  intros Hb. unfold walk, simple, walk_scalar, d_type, FTUint, FTInt, FTFlatInt, FTBool, FTFloat32, FTFloat64. cbn [N.eqb Pos.eqb].
  rewrite len_app, len_le_bytes. replace (N.of_nat 8 + len more <? 8) with false by (symmetry; apply N.ltb_ge; lia).
  rewrite (firstn_le 8), le_value_bytes by exact Hb. reflexivity.
Qed.
Lemma walk_leaf_str s : walk (simple FTString LTNone) s = wok [EvStr s] (len s).
Proof. reflexivity. Qed.

Lemma walk_leaf_time s n : int64_ok s -> (0 <= n < 1000000000)%Z ->
  walk (simple FTTime LTTimestamp) (time_body false s n) = wok [EvTime s n] (len (time_body false s n)).
Proof.
  intros Hs Hn. pose proof (time_roundtrip false s n (VTime 0 0) Hs Hn) as H. cbn [dec] in H.
  unfold walk, simple, walk_scalar, d_type, FTUint, FTInt, FTFlatInt, FTBool, FTFloat32, FTFloat64, FTString, FTTime. cbn [N.eqb Pos.eqb].
  destruct (time_body false s n) as [|b0 r0] eqn:Eb; [discriminate Eb|].
  destruct (time_loop false (S (length (b0 :: r0))) (b0 :: r0) 0 0%Z 0%Z) as [[[s' ns'] used]| | | |]; cbn [bind] in H; try discriminate.
  assert (Hn' : time_norm s' ns' = VTime s n) by congruence.
  assert (Hu : used = len (b0 :: r0)) by congruence.
  rewrite Hn', Hu. reflexivity.
Qed.

(** ** slices *)
Lemma walk_packed_unfold walkd elt f rest consumed acc : rest <> [] ->
  walk_packed walkd elt (S f) rest consumed acc =
  (let w := walkd elt rest in
   match w_out w with
   | Ok used =>
     if used =? 0 then werr (acc ++ w_ev w) else
     match go_drop "Descriptor.readAsSlice" used rest with
     | Ok r1 => walk_packed walkd elt f r1 (consumed + used) (acc ++ w_ev w)
     | r => wfail (acc ++ w_ev w) r
     end
   | r => mkw (acc ++ w_ev w) (match r with Ok _ => Err | x => x end)
   end).
Proof. intros H. destruct rest; [congruence|reflexivity]. Qed.

Lemma walk_counted_unfold walkd elt f cnt rest consumed acc : rest <> [] -> cnt <> 0 ->
  walk_counted walkd elt (S f) cnt rest consumed acc =
  (let '(s, m) := read_varuint rest in
   if (m <=? 0)%Z then werr acc else
   match go_drop "Descriptor.readAsSlice" (Z.to_N m) rest with
   | Ok r1 =>
     if len r1 <? s then werr acc else
     match go_take "Descriptor.readAsSlice" s r1 with
     | Ok body =>
       let w := walkd elt body in
       match w_out w with
       | Ok used =>
         match go_drop "Descriptor.readAsSlice" used r1 with
         | Ok r2 => walk_counted walkd elt f (cnt - 1) r2 (consumed + Z.to_N m + used) (acc ++ w_ev w)
         | r => wfail (acc ++ w_ev w) r
         end
       | r => mkw (acc ++ w_ev w) (match r with Ok _ => Err | x => x end)
       end
     | r => wfail acc r
     end
   | r => wfail acc r
   end).
Proof.
  intros H Hc. destruct rest; [congruence|]. cbn [walk_counted].
  replace (cnt =? 0) with false by (symmetry; apply N.eqb_neq; exact Hc). reflexivity.
Qed.

Lemma walk_packed_list {A} walkd elt (h : A -> bytes) (evs : A -> list ev) : forall (l : list A) fuel consumed acc,
  Forall (fun x => h x <> [] /\ forall more, walkd elt (h x ++ more) = wok (evs x) (len (h x))) l ->
  (length (flat_map h l) < fuel)%nat ->
  walk_packed walkd elt fuel (flat_map h l) consumed acc = wok (acc ++ flat_map evs l) (consumed + len (flat_map h l)).
Proof.
  induction l as [|x l IH]; intros fuel consumed acc Hall Hfuel.
  - cbn [flat_map]. rewrite len_nil, N.add_0_r, app_nil_r. destruct fuel; reflexivity.
  - pose proof (Forall_inv Hall) as [Hne Hw]. pose proof (Forall_inv_tail Hall) as Hall'.
    cbn [flat_map] in *. destruct fuel as [|fuel']; [lia|].
    assert (Hl1 : (1 <= length (h x))%nat) by (destruct (h x); [congruence|cbn; lia]).
    rewrite walk_packed_unfold
      by (intros E0; apply (f_equal (@length N)) in E0; rewrite app_length in E0; cbn [length] in E0; lia).
    cbv zeta. rewrite Hw. cbn [w_out w_ev wok].
    replace (len (h x) =? 0) with false by (symmetry; apply N.eqb_neq; unfold len; lia).
    rewrite go_drop_app. rewrite IH.
    + rewrite <- app_assoc, len_app, N.add_assoc. reflexivity.
    + exact Hall'.
    + rewrite app_length in Hfuel. lia.
Qed.

Lemma walk_counted_list {A} walkd elt (h : A -> bytes) (evs : A -> list ev) : forall (l : list A) fuel more consumed acc,
  Forall (fun x => len (h x) < two64 /\ walkd elt (h x) = wok (evs x) (len (h x))) l ->
  (length l <= fuel)%nat ->
  walk_counted walkd elt fuel (N.of_nat (length l)) (flat_map (fun x => lenframe (h x)) l ++ more) consumed acc
  = wok (acc ++ flat_map evs l) (consumed + len (flat_map (fun x => lenframe (h x)) l)).
Proof.
  induction l as [|x l IH]; intros fuel more consumed acc Hall Hk.
  - destruct fuel; cbn [walk_counted length N.of_nat N.eqb flat_map]; rewrite app_nil_r, len_nil, N.add_0_r; reflexivity.
  - pose proof (Forall_inv Hall) as (Hlx & Hkv). pose proof (Forall_inv_tail Hall) as Hall'.
    destruct fuel as [|k']; [cbn in Hk; lia|].
    cbn [flat_map]. change (lenframe (h x)) with (append_varuint (len (h x)) ++ h x).
    rewrite <- !app_assoc.
    pose proof (append_varuint_length_bounds (len (h x))) as Hb.
    rewrite walk_counted_unfold.
    2:{ intros E0. apply (f_equal (@length N)) in E0. rewrite app_length in E0. cbn [length] in E0. unfold len in *. lia. }
    2:{ cbn [length]. lia. }
    rewrite read_append_varuint by exact Hlx. cbv beta iota.
    replace (Z.of_N (len (append_varuint (len (h x)))) <=? 0)%Z with false by (symmetry; apply Z.leb_gt; lia).
    rewrite N2Z.id, go_drop_app.
    rewrite len_app. replace (len (h x) + len (flat_map (fun x0 => lenframe (h x0)) l ++ more) <? len (h x)) with false
      by (symmetry; apply N.ltb_ge; lia).
    rewrite go_take_app. cbv zeta. rewrite Hkv. cbn [w_out w_ev wok]. rewrite go_drop_app.
    replace (N.of_nat (length (x :: l)) - 1) with (N.of_nat (length l)) by (cbn [length]; lia).
    rewrite IH by (try exact Hall'; cbn [length] in Hk; lia).
    rewrite <- app_assoc. f_equal. rewrite !len_app. lia.
Qed.

Definition packed_type (t : N) : bool :=
  (t =? FTFloat32) || (t =? FTFloat64) || (t =? FTInt) || (t =? FTUint) || (t =? FTFlatInt) || (t =? FTBool).
Definition counted_type (t : N) : bool :=
  (t =? FTStruct) || (t =? FTSlice) || (t =? FTString) || (t =? FTTime).

Lemma walk_slice_packed elt data : packed_type (d_type elt) = true ->
  walk (Desc 0 [] FTSlice [] [elt] false LTNone) data =
  let inner := walk_packed (fun e b => walk elt b) elt (S (length data)) data 0 [] in
  mkw ([EvStartArr] ++ w_ev inner ++ [EvEndArr]) (w_out inner).
Proof.
  intros H. destruct elt as [ei en et etn ees ex el]. cbn [d_type] in H.
  unfold packed_type, FTFloat32, FTFloat64, FTInt, FTUint, FTFlatInt, FTBool in H.
  repeat (apply orb_true_iff in H; destruct H as [H|H]); apply N.eqb_eq in H; subst et; reflexivity.
Qed.

Lemma walk_slice_counted elt data : counted_type (d_type elt) = true ->
  walk (Desc 0 [] FTSlice [] [elt] false LTNone) data =
  let inner :=
    let '(count, n) := read_varuint data in
    if (n <? 0)%Z then werr [] else
    match go_drop "Descriptor.readAsSlice" (Z.to_N n) data with
    | Ok rest =>
      let cnt := if count <? two63 then count else 0 in
      walk_counted (fun e b => walk elt b) elt (S (length data)) cnt rest (Z.to_N n) []
    | r => wfail [] r
    end in
  mkw ([EvStartArr] ++ w_ev inner ++ [EvEndArr]) (w_out inner).
Proof.
  intros H. destruct elt as [ei en et etn ees ex el]. cbn [d_type] in H.
  unfold counted_type, FTStruct, FTSlice, FTString, FTTime in H.
  repeat (apply orb_true_iff in H; destruct H as [H|H]); apply N.eqb_eq in H; subst et; reflexivity.
Qed.

(** the descriptor of a length-delimited codec of the fragment is one the
    counted-slice walker accepts as an element *)
Lemma desc_counted : forall c, walk_ok c -> wire c = WTLength -> forall d, descriptor_of c = Ok d ->
  counted_type (d_type d) = true.
Proof.
  induction c as [ |b|b|b| | | | |compat| |c IH|c IH|nm n fs IH|c IH|c IH|c IH|c IH|kc vc IHk IHv|kc vc IHk IHv| | | ]
    using codec_ind'; intros Hok Hwt d Hd; cbn [walk_ok] in Hok; try contradiction;
    cbn [wire] in Hwt; unfold WTVarInt, WT64, WT32, WTLength, WTSlice in Hwt; try discriminate Hwt;
    cbn [descriptor_of] in Hd.
  - inversion Hd; reflexivity.
  - inversion Hd; reflexivity.
  - inversion Hd; reflexivity.
  - destruct (descriptor_of c) as [d0| | | |] eqn:E; cbn [bind] in Hd; try discriminate. inversion Hd; subst.
    destruct d0. cbn [with_explicit d_type]. apply (IH Hok Hwt _ eq_refl).
  - match type of Hd with (do es <- ?X; _) = _ => destruct X as [es| | | |] end; cbn [bind] in Hd; try discriminate.
    inversion Hd; reflexivity.
  - destruct (descriptor_of c) as [d0| | | |] eqn:E; cbn [bind] in Hd; try discriminate. inversion Hd; reflexivity.
  - destruct (descriptor_of c) as [d0| | | |] eqn:E; cbn [bind] in Hd; try discriminate. inversion Hd; reflexivity.
Qed.

Lemma ubits64_u64 z : ubits 64 z = u64 z.
Proof. reflexivity. Qed.

Lemma u64_small b z : bits_ok b -> uint_range b z -> u64 z = Z.to_N z /\ u64 z < two64.
Proof.
  intros Hb Hz. unfold uint_range in Hz. unfold u64, two64Z, two64.
  assert (Z.of_N (2 ^ b) <= 18446744073709551616)%Z by (destruct Hb as [->|[->|[->| ->]]]; cbn; lia).
  rewrite Z.mod_small by lia. split; [reflexivity|lia].
Qed.

Ltac not_length H := cbn [wire] in H; unfold WTVarInt, WT64, WT32, WTLength, WTSlice in H; congruence.

(** ** C13: the walk of Marshal's output emits the value's Outputter calls *)
Theorem walk_enc : forall c, walk_ok c -> WKc c.
Proof.
  induction c as [ |b|b|b| | | | |compat| |c IH|c IH|nm n fs IH|c IH|c IH|c IH|c IH|kc vc IHk IHv|kc vc IHk IHv| | | ]
    using codec_ind'; intros Hok v d Hd Hw Hf Hk; cbn [walk_ok] in Hok; try contradiction.
  - (* bool *) injection Hd as <-. cbn [wfv] in Hw. destruct v as [bv| | | | | | | | | | | |]; try contradiction.
    split; [intros Hwt; not_length Hwt|intros _ more]. cbn [enc app vev].
    rewrite walk_leaf_bool by (destruct bv; unfold two64; lia). destruct bv; reflexivity.
  - (* int *) injection Hd as <-. cbn [wfv] in Hw. destruct v as [|z| | | | | | | | | | |]; try contradiction.
    pose proof (int_range_64 b z Hok Hw) as Hz.
    split; [intros Hwt; not_length Hwt|intros _ more]. cbn [enc app vev]. unfold append_varint.
    rewrite walk_leaf_int by (apply zigzag_range; exact Hz). rewrite zagzig_zigzag by exact Hz. reflexivity.
  - (* uint *) injection Hd as <-. cbn [wfv] in Hw. destruct v as [|z| | | | | | | | | | |]; try contradiction.
    destruct (u64_small b z Hok Hw) as [E Hlt].
    split; [intros Hwt; not_length Hwt|intros _ more]. cbn [enc app vev].
    rewrite walk_leaf_uint by exact Hlt. rewrite E. reflexivity.
  - (* flat, 64 bits *) subst b. injection Hd as <-. cbn [wfv] in Hw. destruct v as [|z| | | | | | | | | | |]; try contradiction.
    assert (Hz : int64_ok z) by (apply (int_range_64 64 z); [unfold bits_ok; auto|exact Hw]).
    split; [intros Hwt; not_length Hwt|intros _ more]. cbn [enc app vev]. rewrite ubits64_u64.
    rewrite walk_leaf_flat by apply u64_lt. rewrite s64_u64 by exact Hz. reflexivity.
  - (* float32 *) injection Hd as <-. cbn [wfv] in Hw. destruct v as [| |x| | | | | | | | | |]; try contradiction.
    split; [intros Hwt; not_length Hwt|intros _ more]. cbn [enc app vev].
    rewrite walk_leaf_f32 by exact Hw. rewrite len_le_bytes. reflexivity.
  - (* float64 *) injection Hd as <-. cbn [wfv] in Hw. destruct v as [| | |x| | | | | | | | |]; try contradiction.
    split; [intros Hwt; not_length Hwt|intros _ more]. cbn [enc app vev].
    rewrite walk_leaf_f64 by exact Hw. rewrite len_le_bytes. reflexivity.
  - (* string *) injection Hd as <-. cbn [wfv] in Hw. destruct v as [| | | |s| | | | | | | |]; try contradiction.
    split; [intros _|intros Hwt; exfalso; apply Hwt; reflexivity]. reflexivity.
  - (* bytes *) injection Hd as <-. cbn [wfv] in Hw. destruct v as [| | | |s| | | | | | | |]; try contradiction.
    split; [intros _|intros Hwt; exfalso; apply Hwt; reflexivity]. reflexivity.
  - (* time *) destruct compat; [contradiction|]. injection Hd as <-. cbn [wfv] in Hw.
    destruct v as [| | | | |s ns| | | | | | |]; try contradiction. destruct Hw as [Hs Hn].
    split; [intros _|intros Hwt; exfalso; apply Hwt; reflexivity]. cbn [enc frame_tag vev].
    apply walk_leaf_time; assumption.
  - (* pointer *) cbn [descriptor_of] in Hd.
    destruct (descriptor_of c) as [d0| | | |] eqn:E; cbn [bind] in Hd; try discriminate. injection Hd as <-.
    cbn [wfv] in Hw. destruct v as [| | | | | |[p|]| | | | | |]; try contradiction.
    cbn [fits wkv] in Hf, Hk. destruct (IH Hok p d0 E Hw Hf Hk) as [L S0].
    cbn [wire enc vev]. split.
    + intros Hwt. rewrite walk_with_explicit. apply L. exact Hwt.
    + intros Hwt more. rewrite walk_with_explicit. apply S0. exact Hwt.
  - (* struct *)
    destruct Hok as (Hall & Hnd & Hns).
    pose proof (struct_descriptor_fields nm n fs d Hd) as (Ht & Htn & Hx & _ & Hes).
    cbn [descriptor_of] in Hd. fold fields_descs in Hd.
    destruct (fields_descs fs) as [es| | | |] eqn:Ees; cbn [bind] in Hd; try discriminate. injection Hd as <-.
    cbn [d_elems] in Hes.
    cbn [wfv] in Hw. destruct v as [| | | | | | | |vs| | | |]; try contradiction. destruct Hw as [Hlen Hwf].
    split; [intros _|intros Hwt; exfalso; apply Hwt; reflexivity].
    cbn [enc frame_tag struct_fields vev].
    match goal with |- walk _ ?dd = wok (_ ++ ?ee ++ _) (len ?dd') =>
      change dd with (flat_map (fenc vs) fs); change dd' with (flat_map (fenc vs) fs);
      change ee with (flat_map (fev vs) fs) end.
    set (data := flat_map (fenc vs) fs).
    change (walk (Desc 0 [] FTStruct nm es false LTNone) data)
      with (let w := walk_fields (subwalk es) es false (S (length data)) data 0 false false [] in
            mkw ([EvStartObj] ++ w_ev w ++ [EvEndObj]) (w_out w)).
    cbv zeta. unfold data.
    rewrite (fields_walk fs es Hes Hnd fs vs 0 false false [] (S (length (flat_map (fenc vs) fs)))).
    + cbn [w_ev w_out wok app]. rewrite N.add_0_l. reflexivity.
    + apply incl_refl.
    + clear -Hall IH. induction IH as [|f r Hf0 Hr IHr]; [constructor|].
      destruct Hall as [(A & B & C) Hall]. constructor; [split; [exact A|split; [exact B|apply Hf0; exact A]]|apply IHr; exact Hall].
    + destruct Hf as [Hfits _]. cbn [struct_fields] in Hfits. cbn [wkv] in Hk. clear -Hwf Hfits Hk.
      induction fs as [|f r IHr]; [constructor|].
      destruct Hwf as [A Hwf]. destruct Hfits as [B Hfits]. destruct Hk as [C Hk].
      constructor; [split; [exact A|split; [exact B|exact C]]|apply IHr; assumption].
    + lia.
  - (* packed varint slice *)
    destruct Hok as [Hpv Hokc]. cbn [descriptor_of] in Hd.
    destruct (descriptor_of c) as [d0| | | |] eqn:E; cbn [bind] in Hd; try discriminate. injection Hd as <-.
    cbn [wfv] in Hw. destruct v as [| | | | | | | | |l| | |]; try contradiction.
    destruct Hf as [Hfits _]. cbn [slice_elems] in Hfits.
    split; [intros _|intros Hwt; exfalso; apply Hwt; reflexivity].
    cbn [enc frame_tag slice_elems vev].
    assert (Hpt : packed_type (d_type d0) = true).
    { destruct c; cbn [plain_varint] in Hpv; try contradiction; inversion E; reflexivity. }
    rewrite (walk_slice_packed d0 _ Hpt). cbv zeta.
    rewrite (walk_packed_list (fun e b => walk d0 b) d0 (fun x => enc c x []) (vev c)).
    + cbn [w_ev w_out wok app]. rewrite N.add_0_l. reflexivity.
    + rewrite Forall_forall in *. intros x Hx. split.
      * rewrite (plain_varint_enc c x Hpv). pose proof (append_varuint_length_bounds (pv_val c x)) as Hb.
        destruct (append_varuint (pv_val c x)); [rewrite len_nil in Hb; lia|discriminate].
      * intros more. assert (Hkx : wkv c x) by (destruct c; cbn [plain_varint] in Hpv; try contradiction; destruct x; exact I).
        destruct (IH Hokc x d0 E (Hw x Hx) (Hfits x Hx) Hkx) as [_ S0]. apply S0.
        destruct c; cbn [plain_varint] in Hpv; try contradiction; cbn [wire]; discriminate.
    + lia.
  - (* packed fixed slice *)
    cbn [descriptor_of] in Hd.
    destruct (descriptor_of c) as [d0| | | |] eqn:E; cbn [bind] in Hd; try discriminate. injection Hd as <-.
    cbn [wfv] in Hw. destruct v as [| | | | | | | | |l| | |]; try contradiction.
    destruct Hf as (_ & Hfits & _). cbn [slice_elems] in Hfits.
    split; [intros _|intros Hwt; exfalso; apply Hwt; reflexivity].
    cbn [enc frame_tag slice_elems vev].
    assert (Hokc : walk_ok c) by (destruct c; cbn [plain_fixed] in Hok; try contradiction; exact I).
    assert (Hpt : packed_type (d_type d0) = true).
    { destruct c; cbn [plain_fixed] in Hok; try contradiction; inversion E; reflexivity. }
    rewrite (walk_slice_packed d0 _ Hpt). cbv zeta.
    rewrite (walk_packed_list (fun e b => walk d0 b) d0 (fun x => enc c x []) (vev c)).
    + cbn [w_ev w_out wok app]. rewrite N.add_0_l. reflexivity.
    + rewrite Forall_forall in *. intros x Hx. split.
      * destruct c; cbn [plain_fixed] in Hok; try contradiction; cbn [enc app];
          intros E0; apply (f_equal (@length N)) in E0; rewrite le_bytes_length in E0; discriminate.
      * intros more. assert (Hkx : wkv c x) by (destruct c; cbn [plain_fixed] in Hok; try contradiction; destruct x; exact I).
        destruct (IH Hokc x d0 E (Hw x Hx) (Hfits x Hx) Hkx) as [_ S0]. apply S0.
        destruct c; cbn [plain_fixed] in Hok; try contradiction; cbn [wire]; discriminate.
    + lia.
  - (* counted slice *)
    destruct Hok as [Hokc Hwc]. cbn [descriptor_of] in Hd.
    destruct (descriptor_of c) as [d0| | | |] eqn:E; cbn [bind] in Hd; try discriminate. injection Hd as <-.
    cbn [wfv] in Hw. destruct v as [| | | | | | | | |l| | |]; try contradiction.
    destruct Hf as [Hcnt Hfits]. cbn [slice_elems] in Hcnt, Hfits. destruct Hk as [Hc63 Hks].
    split; [intros Hwt; not_length Hwt|intros _ more].
    cbn [enc app slice_elems vev].
    rewrite (walk_slice_counted d0 _ (desc_counted c Hokc Hwc d0 E)). cbv zeta.
    rewrite <- app_assoc, read_append_varuint by exact Hcnt.
    pose proof (append_varuint_length_bounds (N.of_nat (length l))) as Hb.
    replace (Z.of_N (len (append_varuint (N.of_nat (length l)))) <? 0)%Z with false by (symmetry; apply Z.ltb_ge; lia).
    rewrite N2Z.id, go_drop_app.
    replace (N.of_nat (length l) <? two63) with true by (symmetry; apply N.ltb_lt; exact Hc63).
    rewrite (walk_counted_list (fun e b => walk d0 b) d0 (fun x => enc c x []) (vev c)).
    + cbn [w_ev w_out wok app]. rewrite len_app. reflexivity.
    + rewrite Forall_forall in *. intros x Hx. destruct (Hfits x Hx) as [Hfx Hlx]. split; [exact Hlx|].
      destruct (IH Hokc x d0 E (Hw x Hx) Hfx (Hks x Hx)) as [L _]. apply L. exact Hwc.
    + pose proof (frames_length (fun x => enc c x []) l). rewrite !app_length. lia.
Qed.

(** ** through the JSON outputter: the value in the JSON data model *)
From Plenc Require Import Output OutputProofs JsonWalk.

Section Render.
  Variable tok : ev -> bytes.

  (** structs as objects keyed by field name with omitted fields absent, slices
      as arrays element for element, pointers as their target, strings as
      strings, everything else as the token strconv / time print for it *)
  Fixpoint vtree (c : codec) (v : val) {struct c} : jt :=
    match c, v with
    | (CString | CBytes), VStr s => TScalar (SStr s)
    | CPtr c', VPtr (Some p) => vtree c' p
    | CStruct _ _ fs, VStruct vs =>
      TObj (flat_map (fun f => if omit (f_codec f) (slot vs (f_slot f)) then []
                               else [(f_name f, vtree (f_codec f) (slot vs (f_slot f)))]) fs)
    | (CSliceVar c' | CSliceFix c' | CSliceLen c'), VSlice l => TArr (map (vtree c') l)
    | _, _ => TScalar (STok (match vev c v with e :: _ => tok e | [] => [] end))
    end.

  Lemma vev_ops : forall c, walk_ok c -> forall v, wfv c v -> map (oop_of tok) (vev c v) = ops_of (vtree c v).
  Proof.
    induction c as [ |b|b|b| | | | |compat| |c IH|c IH|nm n fs IH|c IH|c IH|c IH|c IH|kc vc IHk IHv|kc vc IHk IHv| | | ]
      using codec_ind'; intros Hok v Hw; cbn [walk_ok] in Hok; try contradiction; cbn [wfv] in Hw.
    - destruct v; try contradiction; reflexivity.
    - destruct v; try contradiction; reflexivity.
    - destruct v; try contradiction; reflexivity.
    - destruct v; try contradiction; reflexivity.
    - destruct v; try contradiction; reflexivity.
    - destruct v; try contradiction; reflexivity.
    - destruct v; try contradiction; reflexivity.
    - destruct v; try contradiction; reflexivity.
    - destruct v; try contradiction; reflexivity.
    - destruct v as [| | | | | |[p|]| | | | | |]; try contradiction. cbn [vev vtree]. apply IH; assumption.
    - destruct v as [| | | | | | | |vs| | | |]; try contradiction. destruct Hw as [_ Hw]. destruct Hok as [Hall _].
      cbn [vev vtree ops_of]. rewrite map_app. cbn [map oop_of]. f_equal. rewrite map_app. cbn [map oop_of]. f_equal.
      induction IH as [|f r Hf Hr IHr]; [reflexivity|].
      destruct Hall as [(A & _) Hall]. destruct Hw as [Hwf Hw]. cbn [flat_map].
      rewrite map_app, (IHr Hall Hw).
      destruct (omit (f_codec f) (slot vs (f_slot f))) eqn:Eo; [reflexivity|].
      destruct Hwf as [Hwf|Hwf]; [congruence|]. cbn [map oop_of flat_map app fst snd].
      rewrite (Hf A _ Hwf). reflexivity.
    - destruct v as [| | | | | | | | |l| | |]; try contradiction. destruct Hok as [_ Hokc].
      cbn [vev vtree ops_of]. rewrite map_app. cbn [map oop_of]. f_equal. rewrite map_app. cbn [map oop_of]. f_equal.
      induction Hw as [|x l Hx Hl IHl]; [reflexivity|]. cbn [flat_map map]. rewrite map_app, IHl, (IH Hokc x Hx). reflexivity.
    - destruct v as [| | | | | | | | |l| | |]; try contradiction.
      assert (Hokc : walk_ok c) by (destruct c; cbn [plain_fixed] in Hok; try contradiction; exact I).
      cbn [vev vtree ops_of]. rewrite map_app. cbn [map oop_of]. f_equal. rewrite map_app. cbn [map oop_of]. f_equal.
      induction Hw as [|x l Hx Hl IHl]; [reflexivity|]. cbn [flat_map map]. rewrite map_app, IHl, (IH Hokc x Hx). reflexivity.
    - destruct v as [| | | | | | | | |l| | |]; try contradiction. destruct Hok as [Hokc _].
      cbn [vev vtree ops_of]. rewrite map_app. cbn [map oop_of]. f_equal. rewrite map_app. cbn [map oop_of]. f_equal.
      induction Hw as [|x l Hx Hl IHl]; [reflexivity|]. cbn [flat_map map]. rewrite map_app, IHl, (IH Hokc x Hx). reflexivity.
  Qed.

  (** C13, end to end for a struct type: Marshal's output, walked with the
      type's Descriptor into a new JSON outputter, is consumed exactly and
      renders the value's image in the JSON data model *)
  Theorem walk_renders_struct : forall nm n fs vs d,
    walk_ok (CStruct nm n fs) -> descriptor_of (CStruct nm n fs) = Ok d ->
    wfv (CStruct nm n fs) (VStruct vs) -> fits (CStruct nm n fs) (VStruct vs) -> wkv (CStruct nm n fs) (VStruct vs) ->
    let data := enc (CStruct nm n fs) (VStruct vs) [] in
    let w := walk d data in
    w_out w = Ok (len data) /\
    (do j <- o_run jout_init (map (oop_of tok) (w_ev w)); o_done j)
    = Ok (render 0 false (vtree (CStruct nm n fs) (VStruct vs)) ++ [10]).
  Proof.
    intros nm n fs vs d Hok Hd Hw Hf Hk data w.
    destruct (walk_enc _ Hok (VStruct vs) d Hd Hw Hf Hk) as [L _]. specialize (L eq_refl).
    unfold w, data. rewrite L. cbn [w_out w_ev wok]. split; [reflexivity|].
    rewrite (vev_ops _ Hok _ Hw). apply output_render.
  Qed.
End Render.
