(** C13/C14: "the descriptor is itself a plenc-tagged struct".  The Go type

      type Descriptor struct { Index int `plenc:"1"`; Name string `plenc:"2"`; Type FieldType `plenc:"3"`;
                               TypeName string `plenc:"5"`; Elements []Descriptor `plenc:"4"`;
                               ExplicitPresence bool `plenc:"6"`; LogicalType LogicalType `plenc:"7"` }

    is recursive; its codec is modelled by its finite unfoldings.  Every
    descriptor (any depth, any width) written with that codec and read back
    into a fresh variable is the same descriptor, so a descriptor restored
    through plenc walks data exactly like the original. *)
From Plenc Require Import Base Varint Wire JsonAny Codec SizeProofs Registry CorrCore RoundTripBase RoundTrip RoundTripZero Descriptor.
Open Scope N_scope.

Definition desc_fields (inner : codec) : list (fld codec) :=
  [mkfld 0 1 (ascii "Index") (CInt 64); mkfld 1 2 (ascii "Name") CString; mkfld 2 3 (ascii "Type") (CInt 64);
   mkfld 3 5 (ascii "TypeName") CString; mkfld 4 4 (ascii "Elements") (CSliceLen inner);
   mkfld 5 6 (ascii "ExplicitPresence") CBool; mkfld 6 7 (ascii "LogicalType") (CInt 64)].

Fixpoint desc_codec (k : nat) : codec :=
  CStruct (ascii "Descriptor") 7 (desc_fields (match k with O => CBottom | S k' => desc_codec k' end)).

Fixpoint dval (d : desc) : val :=
  match d with
  | Desc i n t tn es x l =>
    VStruct [VInt i; VStr n; VInt (Z.of_N t); VStr tn; VSlice (map dval es); VBool x; VInt (Z.of_N l)]
  end.

Fixpoint ddepth (d : desc) : nat :=
  match d with Desc _ _ _ _ es _ _ => S (fold_right (fun x a => Nat.max (ddepth x) a) O es) end.

(** the numbers fit their Go types: Index is an int, the two enumerations are ints *)
Fixpoint d_ok (d : desc) : Prop :=
  match d with
  | Desc i _ t _ es _ l =>
    int_range 64 i /\ int_range 64 (Z.of_N t) /\ int_range 64 (Z.of_N l) /\ fold_right (fun x a => d_ok x /\ a) True es
  end.

Lemma ddepth_pos d : (1 <= ddepth d)%nat.
Proof. destruct d; cbn [ddepth]; lia. Qed.
Lemma elems_depth es x n : In x es -> (fold_right (fun x a => Nat.max (ddepth x) a) O es <= n)%nat -> (ddepth x <= n)%nat.
Proof.
  induction es as [|y r IH]; intros Hin Hle; [contradiction|]. cbn [fold_right] in Hle.
  destruct Hin as [<-|Hin]; [lia|apply IH; [exact Hin|lia]].
Qed.
Lemma elems_ok es x : In x es -> fold_right (fun x a => d_ok x /\ a) True es -> d_ok x.
Proof.
  induction es as [|y r IH]; intros Hin Hok; [contradiction|]. cbn [fold_right] in Hok.
  destruct Hin as [<-|Hin]; [apply Hok|apply IH; [exact Hin|apply Hok]].
Qed.

Lemma desc_rt_ok : forall k, rt_ok (desc_codec k).
Proof.
  assert (Hnd : forall inner, rt_ok inner -> wire inner = WTLength -> top_ok inner ->
                 rt_ok (CStruct (ascii "Descriptor") 7 (desc_fields inner))).
  { intros inner Hi Hw Ht. cbn [rt_ok desc_fields f_codec f_index f_slot map]. unfold bits_ok.
    repeat match goal with
    | |- _ /\ _ => split
    | |- True => exact I
    | |- NoDup _ => repeat constructor; cbn; intuition (try discriminate; try lia)
    | |- (_ <= _ < _)%Z => lia
    | |- (_ < _)%nat => lia
    | |- _ \/ _ => auto
    end; try assumption; lia. }
  induction k as [|k IH]; cbn [desc_codec]; apply Hnd; try exact I; try reflexivity.
  - exact IH.
  - destruct k; reflexivity.
  - destruct k; exact I.
Qed.

Theorem dval_wfv : forall k d, (ddepth d <= S k)%nat -> d_ok d -> wfv (desc_codec k) (dval d).
Proof.
  induction k as [|k IH]; intros [i n t tn es x l] Hd Hok; cbn [ddepth] in Hd; cbn [d_ok] in Hok;
    destruct Hok as (Hi & Ht & Hl & Hes);
    cbn [desc_codec dval wfv desc_fields f_codec f_slot slot nth length]; (split; [reflexivity|]).
  - destruct es as [|y r]; [|cbn [fold_right] in Hd; pose proof (ddepth_pos y); lia].
    repeat split; try (right; first [exact Hi|exact Ht|exact Hl|exact I]); left; reflexivity.
  - repeat split; try (right; first [exact Hi|exact Ht|exact Hl|exact I]).
    destruct es as [|y r]; [left; reflexivity|right]. cbn [wfv]. apply Forall_forall. intros e He.
    apply in_map_iff in He. destruct He as (z & <- & Hin).
    apply IH; [|apply (elems_ok _ _ Hin Hes)]. apply (elems_depth _ _ (S k) Hin). lia.
Qed.

Theorem dval_canon : forall k d, (ddepth d <= S k)%nat -> canon (desc_codec k) (dval d).
Proof.
  assert (Hv0 : forall v, omit (CInt 64) (VInt v) = true -> VInt v = zero (CInt 64)).
  { intros v H. cbn [omit] in H. apply Z.eqb_eq in H. subst. reflexivity. }
  assert (Hs0 : forall s, omit CString (VStr s) = true -> VStr s = zero CString).
  { intros s H. cbn [omit] in H. destruct s; [reflexivity|discriminate]. }
  assert (Hb0 : forall b, omit CBool (VBool b) = true -> VBool b = zero CBool).
  { intros b H. cbn [omit] in H. destruct b; [discriminate|reflexivity]. }
  induction k as [|k IH]; intros [i n t tn es x l] Hd; cbn [ddepth] in Hd;
    cbn [desc_codec dval canon desc_fields f_codec f_slot slot nth map];
    (split; [|intros j Hj Hn; exfalso; apply Hn; cbn; lia]).
  - destruct es as [|y r]; [|cbn [fold_right] in Hd; pose proof (ddepth_pos y); lia]. cbn [map].
    repeat split; auto; try (intros _; reflexivity); constructor.
  - repeat split; auto.
    + destruct es; cbn [omit map]; [reflexivity|discriminate].
    + cbn [canon]. apply Forall_forall. intros e He. apply in_map_iff in He. destruct He as (z & <- & Hin).
      apply IH. apply (elems_depth _ _ (S k) Hin). lia.
Qed.

(** a descriptor written with plenc and read back into a fresh variable is the
    same descriptor ([fits]: its encoding is shorter than 2^64 bytes) *)
Theorem descriptor_plenc_roundtrip : forall k d,
  (ddepth d <= S k)%nat -> d_ok d -> fits (desc_codec k) (dval d) ->
  unmarshal (desc_codec k) (marshal (desc_codec k) [] (dval d)) (zero (desc_codec k)) = Ok (dval d).
Proof.
  intros k d Hd Hok Hf. unfold unmarshal, marshal.
  assert (E : omit (desc_codec k) (dval d) = false) by (destruct k; destruct d; reflexivity). rewrite E. cbn [app].
  assert (Ht : top_ok (desc_codec k)) by (destruct k; exact I).
  pose proof (roundtrip_fresh (desc_codec k) (dval d) (desc_rt_ok k) Ht (dval_wfv k d Hd Hok) Hf (dval_canon k d Hd) E) as H.
  rewrite H. reflexivity.
Qed.

(** [dval] loses nothing: the restored value determines the descriptor *)
Lemma map_dval_inj : forall k, (forall a b, (ddepth a <= k)%nat -> dval a = dval b -> a = b) ->
  forall es es', (fold_right (fun x a => Nat.max (ddepth x) a) O es <= k)%nat -> map dval es = map dval es' -> es = es'.
Proof.
  intros k IH. induction es as [|a r IHr]; intros [|b r'] Hd E; cbn [map] in E; try discriminate; [reflexivity|].
  injection E as E1 E2. cbn [fold_right] in Hd. f_equal; [apply IH; [lia|exact E1]|apply IHr; [lia|exact E2]].
Qed.
Theorem dval_inj : forall k a b, (ddepth a <= k)%nat -> dval a = dval b -> a = b.
Proof.
  induction k as [|k IH]; intros a b Hd E; [pose proof (ddepth_pos a); lia|].
  destruct a as [i n t tn es x l], b as [i' n' t' tn' es' x' l']. cbn [dval] in E. cbn [ddepth] in Hd.
  injection E as -> -> Et -> Ees -> El.
  apply Nat2Z.inj in Et || idtac.
  assert (t = t') by lia. assert (l = l') by lia. subst.
  f_equal. apply (map_dval_inj k IH); [lia|exact Ees].
Qed.

(** the model of CodecForType yields exactly these unfoldings *)
Definition desc_env : env :=
  [mksdef (ascii "Descriptor")
     [mkfdef true (ascii "Index") (ascii "1") [] (TInt 0);
      mkfdef true (ascii "Name") (ascii "2") [] TString;
      mkfdef true (ascii "Type") (ascii "3") [] (TNamed 1 (TInt 0));
      mkfdef true (ascii "TypeName") (ascii "5") [] TString;
      mkfdef true (ascii "Elements") (ascii "4") [] (TSlice (TStruct 0));
      mkfdef true (ascii "ExplicitPresence") (ascii "6") [] TBool;
      mkfdef true (ascii "LogicalType") (ascii "7") [] (TNamed 2 (TInt 0))]].
Definition dplain_cfg : cfg := mkcfg false false false false false false.

Lemma desc_step : forall m c,
  codec_for dplain_cfg desc_env m (TStruct 0) [] = Ok c -> wire c = WTLength ->
  codec_for dplain_cfg desc_env (S (S m)) (TStruct 0) [] = Ok (CStruct (ascii "Descriptor") 7 (desc_fields c)).
Proof.
  intros m c H Hw. remember (S m) as m1 eqn:E1.
  cbn [codec_for]. cbv -[codec_for] in H |- *. subst m1.
  cbn [codec_for]. cbv -[codec_for wire] in H |- *. rewrite H. cbv -[wire].
  rewrite Hw. reflexivity.
Qed.

Lemma desc_codec_for : forall k,
  codec_for dplain_cfg desc_env (2 * k + 2) (TStruct 0) [] = Ok (desc_codec k).
Proof.
  induction k as [|k IH]; [vm_compute; reflexivity|].
  replace (2 * S k + 2)%nat with (S (S (2 * k + 2))) by lia.
  cbn [desc_codec]. apply desc_step; [exact IH|destruct k; reflexivity].
Qed.

(** the descriptor restored through plenc drives the walker exactly like the
    original one, on any data whatever *)
Theorem restored_walks_same : forall k d d' data,
  (ddepth d <= S k)%nat -> d_ok d -> fits (desc_codec k) (dval d) ->
  unmarshal (desc_codec k) (marshal (desc_codec k) [] (dval d)) (zero (desc_codec k)) = Ok (dval d') ->
  d' = d /\ walk d' data = walk d data.
Proof.
  intros k d d' data Hd Hok Hf H. rewrite (descriptor_plenc_roundtrip k d Hd Hok Hf) in H.
  injection H as H. apply (dval_inj (S k) d d' Hd) in H. subst d'. split; reflexivity.
Qed.
