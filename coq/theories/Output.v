(** Model of plenccodec/output.go: the JSONOutput state machine. *)
From Plenc Require Import Base.
Open Scope N_scope.

Inductive ostate := SKey | SObjValue | SValue.

Record jout := mkjout { o_data : bytes; o_depth : nat; o_infield : bool; o_stack : list ostate }.
Definition jout_init : jout := mkjout [] 0 false [].

(** scalars: numbers, booleans, times and raw values are opaque tokens rendered
    by strconv / time (supplied by the harness); strings go through appendString *)
Inductive scal := STok (b : bytes) | SStr (s : bytes).

Inductive oop :=
| OStartObject | OEndObject | OStartArray | OEndArray
| ONameField (name : bytes)
| OScalar (s : scal)
| OReset.

Definition hexdigit (n : N) : N := if n <? 10 then 48 + n else 87 + n.

(** appendString's per-byte escaping *)
Definition escape_byte (c : N) : bytes :=
  if (c =? 92) || (c =? 34) then [92; c]
  else if c =? 10 then [92; 110]
  else if c =? 13 then [92; 114]
  else if c =? 9 then [92; 116]
  else if c <? 32 then [92; 117; 48; 48; hexdigit (c / 16); hexdigit (c mod 16)]
  else [c].
Definition append_string (v : bytes) : bytes := [34] ++ flat_map escape_byte v ++ [34].

Definition indent (d : nat) : bytes := concat (repeat [32; 32] d).

Definition scal_bytes (s : scal) : bytes :=
  match s with STok b => b | SStr v => append_string v end.

(** prefix() *)
Definition o_prefix (j : jout) : jout :=
  if o_infield j then mkjout (o_data j) (o_depth j) false (o_stack j)
  else mkjout (o_data j ++ indent (o_depth j)) (o_depth j) false (o_stack j).

(** the trailing-comma trim of end(): "...,\n" becomes "...\n" *)
Definition trim (d : bytes) : bytes :=
  match rev d with
  | 10 :: 44 :: r => rev (10 :: r)
  | _ => d
  end.

(** end(); the stack pop panics on an empty stack (ill-nested call sequences) *)
Definition o_end (j : jout) : res jout :=
  match o_depth j with
  | O => Ok (mkjout (o_data j ++ [10]) 0 (o_infield j) (o_stack j))
  | S d =>
    match o_stack j with
    | [] => Panic "JSONOutput.end j.stack[:len(j.stack)-1]"
    | _ :: st => Ok (mkjout (if Nat.ltb (length (o_data j)) 2 then o_data j else trim (o_data j)) d (o_infield j) st)
    end
  end.

(** punctuate() *)
Definition o_punct (j : jout) : jout :=
  match o_stack j with
  | [] => j
  | SKey :: st => mkjout (o_data j ++ [58; 32]) (o_depth j) (o_infield j) (SObjValue :: st)
  | SObjValue :: st => mkjout (o_data j ++ [44; 10]) (o_depth j) (o_infield j) (SKey :: st)
  | SValue :: st => mkjout (o_data j ++ [44; 10]) (o_depth j) (o_infield j) (SValue :: st)
  end.

Definition o_add (b : bytes) (j : jout) : jout := mkjout (o_data j ++ b) (o_depth j) (o_infield j) (o_stack j).

Definition o_step (j : jout) (op : oop) : res jout :=
  match op with
  | OStartObject =>
    let j1 := o_add [123; 10] (o_prefix j) in
    Ok (mkjout (o_data j1) (S (o_depth j1)) (o_infield j1) (SKey :: o_stack j1))
  | OStartArray =>
    let j1 := o_add [91; 10] (o_prefix j) in
    Ok (mkjout (o_data j1) (S (o_depth j1)) (o_infield j1) (SValue :: o_stack j1))
  | OEndObject => do j1 <- o_end j; Ok (o_punct (o_add [125] (o_prefix j1)))
  | OEndArray => do j1 <- o_end j; Ok (o_punct (o_add [93] (o_prefix j1)))
  | ONameField name =>
    let j1 := o_prefix j in
    let j2 := mkjout (o_data j1) (o_depth j1) true (o_stack j1) in
    Ok (o_punct (o_add (append_string name) j2))
  | OScalar s => Ok (o_punct (o_add (scal_bytes s) (o_prefix j)))
  | OReset => Ok jout_init
  end.

Fixpoint o_run (j : jout) (ops : list oop) : res jout :=
  match ops with
  | [] => Ok j
  | op :: r => do j1 <- o_step j op; o_run j1 r
  end.

(** Done() *)
Definition o_done (j : jout) : res bytes := do j1 <- o_end j; Ok (o_data j1).

(** ** Call trees and the reference printer *)
Inductive jt :=
| TScalar (s : scal)
| TArr (l : list jt)
| TObj (l : list (bytes * jt)).

Fixpoint ops_of (t : jt) : list oop :=
  match t with
  | TScalar s => [OScalar s]
  | TArr l => [OStartArray] ++ flat_map ops_of l ++ [OEndArray]
  | TObj l => [OStartObject] ++ flat_map (fun kx => ONameField (fst kx) :: ops_of (snd kx)) l ++ [OEndObject]
  end.

(** join with ",\n" and end with "\n"; nothing at all for no items *)
Fixpoint join_items (items : list bytes) : bytes :=
  match items with
  | [] => []
  | [x] => x ++ [10]
  | x :: r => x ++ [44; 10] ++ join_items r
  end.

(** [render d infield t]: the text of [t] at nesting depth [d]; [infield] says
    it follows a member name (no indentation). No trailing punctuation. *)
Fixpoint render (d : nat) (infield : bool) (t : jt) : bytes :=
  (if infield then [] else indent d) ++
  match t with
  | TScalar s => scal_bytes s
  | TArr l => [91; 10] ++ join_items (map (render (S d) false) l) ++ indent d ++ [93]
  | TObj l => [123; 10]
              ++ join_items (map (fun kx => indent (S d) ++ append_string (fst kx) ++ [58; 32] ++ render (S d) true (snd kx)) l)
              ++ indent d ++ [125]
  end.
