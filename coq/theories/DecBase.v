(** C04: decoding arbitrary bytes is total.  For every codec tree and every
    byte string the model's Read returns a value or an error - never [Panic]
    (every Go slice expression stays in bounds), never [Hang] (every loop
    terminates within its fuel), never [Blowup] (every pre-allocation request is
    bounded by the bytes that remain) - and it never consumes more than it was
    given. *)
From Plenc Require Import Base Varint Wire VarintProofs WireProofs JsonAny Codec SizeProofs.
Open Scope N_scope.

Definition good {A} (r : res (A * N)) (bound : N) : Prop :=
  match r with Ok (_, n) => n <= bound | Err => True | _ => False end.

(** a decoder that is total on every input shorter than [d] *)
Definition dsafe (d : nat) (decf : decoder) : Prop :=
  forall data wt prior, (length data < d)%nat -> good (decf data wt prior) (len data).

(** [okd d c]: the tree [c] is good for inputs shorter than [d].  The unfolding
    limit [CBottom] of a recursive type may only sit below [d] struct levels
    (each struct level consumes at least one byte of input); fixed slices need
    an element codec of non-zero width.  A tree without [CBottom] is good for
    every [d]. *)
Fixpoint okd (d : nat) (c : codec) {struct c} : Prop :=
  match c with
  | CBottom => d = 0%nat
  | CNull c' | CPtr c' | CSliceVar c' | CSliceLen c' | CSliceProto c' => okd d c'
  | CSliceFix c' => fixed_width c' <> 0 /\ okd d c'
  | CMap k v | CMapProto k v => okd d k /\ okd d v
  | CStruct _ _ fs =>
    match d with
    | O => True
    | S d' => (fix all (l : list (fld codec)) : Prop :=
                 match l with [] => True | f :: r => okd d' (f_codec f) /\ all r end) fs
    end
  | _ => True
  end.

Lemma okd_struct_fields nm n fs d :
  okd (S d) (CStruct nm n fs) -> Forall (fun f => okd d (f_codec f)) fs.
Proof.
  cbn [okd]. induction fs as [|f r IH]; intros H; constructor; [apply H|apply IH, H].
Qed.

Ltac llia := unfold len in *; lia.

(** ** basic facts *)

Lemma read_tag_n rest wt index n : read_tag rest = (wt, index, n) -> (n <= Z.of_N (len rest))%Z.
Proof.
  unfold read_tag. destruct (read_varuint rest) as [v k] eqn:E. intros H. inversion H; subst.
  eapply read_varuint_n; eauto.
Qed.

Lemma go_drop_good site n l : n <= len l ->
  exists r, go_drop site n l = Ok r /\ len r = len l - n /\ (length r = length l - N.to_nat n)%nat.
Proof.
  intros H. destruct (go_drop_ok site n l H) as [E L]. eexists. split; [exact E|]. split; [exact L|].
  rewrite skipn_length. reflexivity.
Qed.

Lemma go_take_good site n l : n <= len l ->
  exists r, go_take site n l = Ok r /\ len r = n /\ (length r = N.to_nat n)%nat.
Proof.
  intros H. unfold go_take. replace (n <=? len l) with true by (symmetry; apply N.leb_le; exact H).
  eexists. split; [reflexivity|]. unfold len in *. rewrite firstn_length. split; llia.
Qed.

Lemma find_field_In {D} (tbl : list (Z * nat * D)) index sl decf :
  find_field tbl index = Some (sl, decf) -> exists i, In (i, sl, decf) tbl.
Proof.
  unfold find_field. destruct (find _ tbl) as [[[i s] dd]|] eqn:E; [|discriminate].
  intros H. inversion H; subst. apply find_some in E. exists i. apply E.
Qed.

Lemma skip_good data wt : good (match skip data wt with Ok k => Ok (tt, k) | Err => Err | Panic s => Panic s | Hang s => Hang s | Blowup s => Blowup s end) (len data).
Proof.
  pose proof (skip_total data wt) as T. pose proof (skip_bounded data wt) as B.
  destruct (skip data wt); cbn in *; auto.
Qed.


Lemma read_field_data_safe site wt rest1 :
  match read_field_data site wt rest1 with
  | Ok (fdata, rest2, k) =>
    k <= len rest1 /\ len rest2 = len rest1 - k /\ len fdata <= len rest2
    /\ (length fdata <= length rest2)%nat /\ (length rest2 <= length rest1)%nat
  | Err => True
  | _ => False
  end.
Proof.
  unfold read_field_data. destruct (wt =? WTLength).
  - destruct (read_varuint rest1) as [l k] eqn:Ev.
    pose proof (read_varuint_n _ _ _ Ev) as Hk.
    destruct (k <=? 0)%Z eqn:Hk0; [exact I|]. apply Z.leb_gt in Hk0.
    destruct (go_drop_good site (Z.to_N k) rest1 ltac:(llia)) as (rest2 & E2 & L2 & LL2).
    rewrite E2. cbn [bind].
    destruct (len rest2 <? l) eqn:Hl; [exact I|]. apply N.ltb_ge in Hl.
    destruct (go_take_good site l rest2 Hl) as (fdata & E3 & L3 & LL3).
    rewrite E3. cbn [bind]. repeat split; llia.
  - repeat split; llia.
Qed.
