(** Correspondence for C07: traces of the instrumented registry. *)
From Plenc Require Import Base Concur.

Inductive tev := TLoad (gid : nat) (hit : bool) | TPublish (gid : nat) (usable : bool).
Inductive c07case := K07 (trace : list tev) (results_ok : bool).

(** replay a trace on the abstract machine: every publication allocates and
    completes an object iff the implementation's codec was usable at that
    moment, and must then pass the model's Publish guard *)
Definition replay (tr : list tev) : cstate * bool :=
  fold_left (fun (acc : cstate * bool) e =>
    let '(s, ok) := acc in
    match e with
    | TLoad _ _ => (s, ok)
    | TPublish g usable =>
      let s1 := cstep_run s (CAlloc g) in
      let o := length (heap s) in
      let s2 := if usable then cstep_run s1 (CComplete g o) else s1 in
      let s3 := cstep_run s2 (CPublish g o) in
      (s3, ok && Nat.eqb (length (published s3)) (S (length (published s))))
    end) tr (cinit, true).

Definition check07 (k : c07case) : bool :=
  let 'K07 tr ok := k in ok && snd (replay tr).

Fixpoint mismatches_C07 (base : N) (cs : list c07case) : list (N * bool) :=
  match cs with
  | [] => []
  | k :: rest => if check07 k then mismatches_C07 (base + 1) rest else (base, false) :: mismatches_C07 (base + 1) rest
  end.
