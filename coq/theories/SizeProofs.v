(** C05: the size a codec reports is the number of bytes it appends, and a
    tagged length-delimited encoding is tag ++ varint(len body) ++ body.
    Proved for every codec tree and every value, by induction on the tree. *)
From Plenc Require Import Base Varint Wire VarintProofs WireProofs JsonAny Codec.
Open Scope N_scope.

(** ** A usable induction principle for the nested codec type *)
Section CodecInd.
  Variable P : codec -> Prop.
  Hypothesis HBool : P CBool.
  Hypothesis HInt : forall b, P (CInt b).
  Hypothesis HUint : forall b, P (CUint b).
  Hypothesis HFlat : forall b, P (CFlat b).
  Hypothesis HF32 : P CF32.
  Hypothesis HF64 : P CF64.
  Hypothesis HString : P CString.
  Hypothesis HBytes : P CBytes.
  Hypothesis HTime : forall b, P (CTime b).
  Hypothesis HBQ : P CBQ.
  Hypothesis HNull : forall c, P c -> P (CNull c).
  Hypothesis HPtr : forall c, P c -> P (CPtr c).
  Hypothesis HStruct : forall nm n fs, Forall (fun f => P (f_codec f)) fs -> P (CStruct nm n fs).
  Hypothesis HSliceVar : forall c, P c -> P (CSliceVar c).
  Hypothesis HSliceFix : forall c, P c -> P (CSliceFix c).
  Hypothesis HSliceLen : forall c, P c -> P (CSliceLen c).
  Hypothesis HSliceProto : forall c, P c -> P (CSliceProto c).
  Hypothesis HMap : forall k v, P k -> P v -> P (CMap k v).
  Hypothesis HMapProto : forall k v, P k -> P v -> P (CMapProto k v).
  Hypothesis HJMap : P CJMap.
  Hypothesis HJArr : P CJArr.
  Hypothesis HBottom : P CBottom.

  Fixpoint codec_ind' (c : codec) : P c :=
    match c with
    | CBool => HBool | CInt b => HInt b | CUint b => HUint b | CFlat b => HFlat b
    | CF32 => HF32 | CF64 => HF64 | CString => HString | CBytes => HBytes
    | CTime b => HTime b | CBQ => HBQ
    | CNull c' => HNull c' (codec_ind' c')
    | CPtr c' => HPtr c' (codec_ind' c')
    | CStruct nm n fs =>
      HStruct nm n fs
        ((fix go (l : list (fld codec)) : Forall (fun f => P (f_codec f)) l :=
            match l with
            | [] => Forall_nil _
            | f :: r => Forall_cons f (codec_ind' (f_codec f)) (go r)
            end) fs)
    | CSliceVar c' => HSliceVar c' (codec_ind' c')
    | CSliceFix c' => HSliceFix c' (codec_ind' c')
    | CSliceLen c' => HSliceLen c' (codec_ind' c')
    | CSliceProto c' => HSliceProto c' (codec_ind' c')
    | CMap k v => HMap k v (codec_ind' k) (codec_ind' v)
    | CMapProto k v => HMapProto k v (codec_ind' k) (codec_ind' v)
    | CJMap => HJMap | CJArr => HJArr | CBottom => HBottom
    end.
End CodecInd.

(** ** Numeric side conditions.
    [fits c v]: every integer fits its Go type and every length that is written
    as a varint is below 2^64 (Go: encoded sizes are ints).  No typing of [v]
    is required: [size] and [enc] treat an ill-typed value alike. *)

Definition str_of (v : val) : bytes := match v with VStr s => s | _ => [] end.
Definition map_entries_of (v : val) : list (val * val) := match v with VMap (Some es) => es | _ => [] end.

(** fixed-width element codecs (what CodecForType puts under a fixed slice) *)
Fixpoint is_fixed (c : codec) : bool :=
  match c with CF32 | CF64 => true | CNull c' => is_fixed c' | _ => false end.

Fixpoint jfits (j : jv) : Prop :=
  match j with
  | JStr s | JNum s => len s < two64
  | JInt z => int64_ok z
  | JArr l =>
    N.of_nat (length l) < two64 /\
    (fix all (l : list jv) : Prop := match l with [] => True | x :: r => (jfits x /\ len (jenc_value x) < two64) /\ all r end) l
  | JObj l =>
    N.of_nat (length l) < two64 /\
    (fix all (l : list (bytes * jv)) : Prop :=
       match l with [] => True | kx :: r => (jfits (snd kx) /\ len (fst kx) < two64 /\ len (jenc_kv (fst kx) (snd kx)) < two64) /\ all r end) l
  | _ => True
  end.

Definition entry_body (kc vc : codec) (e : val * val) : bytes :=
  (if omit kc (fst e) then [] else enc kc (fst e) (field_tag kc 1))
  ++ (if omit vc (snd e) then [] else enc vc (snd e) (field_tag vc 2)).

Fixpoint fits (c : codec) (v : val) {struct c} : Prop :=
  match c with
  | CInt _ => match v with VInt z => int64_ok z | _ => True end
  | CFlat b => b <= 64
  | CString | CBytes => len (str_of v) < two64
  | CTime compat => match v with VTime s n => compat = false -> int64_ok s /\ int64_ok n | _ => True end
  | CNull c' => fits c' (match v with VNull _ p => p | _ => zero c' end)
  | CPtr c' => match v with VPtr (Some p) => fits c' p | _ => True end
  | CStruct _ _ fs =>
    (fix all (l : list (fld codec)) : Prop :=
       match l with
       | [] => True
       | f :: r => fits (f_codec f) (slot (struct_fields v) (f_slot f)) /\ all r
       end) fs
    /\ len (enc c v []) < two64
  | CSliceVar c' =>
    Forall (fits c') (slice_elems v) /\ len (enc c v []) < two64
  | CSliceFix c' =>
    is_fixed c' = true /\ Forall (fits c') (slice_elems v) /\ len (enc c v []) < two64
  | CSliceLen c' =>
    N.of_nat (length (slice_elems v)) < two64 /\
    Forall (fun x => fits c' x /\ len (enc c' x []) < two64) (slice_elems v)
  | CSliceProto c' => Forall (fits c') (slice_elems v)
  | CMap kc vc | CMapProto kc vc =>
    N.of_nat (length (map_entries_of v)) < two64 /\
    Forall (fun e => fits kc (fst e) /\ fits vc (snd e) /\ len (entry_body kc vc e) < two64) (map_entries_of v)
  | CJMap | CJArr => match v with VJson _ j => jfits j | _ => True end
  | _ => True
  end.

(** ** Helper lemmas *)

Lemma le_bytes_length n v : length (le_bytes n v) = n.
Proof. revert v. induction n as [|n IH]; intros v; cbn; [reflexivity|]. f_equal. apply IH. Qed.
Lemma len_le_bytes n v : len (le_bytes n v) = N.of_nat n.
Proof. unfold len. rewrite le_bytes_length. reflexivity. Qed.

Lemma frame_law tag body : len body < two64 ->
  frame_size tag (len body) = len (frame_tag tag body).
Proof.
  intros Hb. unfold frame_size, frame_tag. destruct tag as [|t tg]; [reflexivity|].
  rewrite !len_app. rewrite (size_append_varuint _ Hb). lia.
Qed.

Lemma lenframe_len b : len b < two64 -> len (lenframe b) = size_varuint (len b) + len b.
Proof. intros H. unfold lenframe. rewrite len_app, (size_append_varuint _ H). reflexivity. Qed.

Lemma sum_flat {A} (g : A -> N) (h : A -> bytes) (l : list A) :
  Forall (fun x => g x = len (h x)) l -> sum_map g l = len (flat_map h l).
Proof.
  induction 1 as [|x l Hx Hl IH]; cbn [sum_map fold_right flat_map]; [reflexivity|].
  rewrite len_app. unfold sum_map in IH. rewrite IH, Hx. reflexivity.
Qed.

Lemma fits_struct_fields nm n fs v :
  fits (CStruct nm n fs) v ->
  Forall (fun f => fits (f_codec f) (slot (struct_fields v) (f_slot f))) fs.
Proof.
  intros [H _]. induction fs as [|f r IH]; constructor.
  - apply H.
  - apply IH. apply H.
Qed.

(** ** JSON values *)

Lemma jarr_items l :
  (fix all (l : list jv) : Prop := match l with [] => True | x :: r => (jfits x /\ len (jenc_value x) < two64) /\ all r end) l ->
  Forall (fun x => jfits x /\ len (jenc_value x) < two64) l.
Proof. induction l as [|x r IH]; intros H; constructor; [apply H|apply IH, H]. Qed.
Lemma jobj_items l :
  (fix all (l : list (bytes * jv)) : Prop :=
     match l with [] => True | kx :: r => (jfits (snd kx) /\ len (fst kx) < two64 /\ len (jenc_kv (fst kx) (snd kx)) < two64) /\ all r end) l ->
  Forall (fun kx => jfits (snd kx) /\ len (fst kx) < two64 /\ len (jenc_kv (fst kx) (snd kx)) < two64) l.
Proof. induction l as [|x r IH]; intros H; constructor; [apply H|apply IH, H]. Qed.

Section JvInd.
  Variable P : jv -> Prop.
  Hypothesis HNil : P JNil.
  Hypothesis HStr : forall s, P (JStr s).
  Hypothesis HInt : forall z, P (JInt z).
  Hypothesis HFloat : forall b, P (JFloat b).
  Hypothesis HBool : forall b, P (JBool b).
  Hypothesis HArr : forall l, Forall P l -> P (JArr l).
  Hypothesis HObj : forall l, Forall (fun kx => P (snd kx)) l -> P (JObj l).
  Hypothesis HNum : forall s, P (JNum s).
  Fixpoint jv_ind' (j : jv) : P j :=
    match j with
    | JNil => HNil | JStr s => HStr s | JInt z => HInt z | JFloat b => HFloat b | JBool b => HBool b
    | JArr l => HArr l ((fix go (l : list jv) : Forall P l :=
                           match l with [] => Forall_nil _ | x :: r => Forall_cons x (jv_ind' x) (go r) end) l)
    | JObj l => HObj l ((fix go (l : list (bytes * jv)) : Forall (fun kx => P (snd kx)) l :=
                           match l with [] => Forall_nil _ | kx :: r => Forall_cons kx (jv_ind' (snd kx)) (go r) end) l)
    | JNum s => HNum s
    end.
End JvInd.

Lemma fold_sum {A} (g : A -> N) (l : list A) :
  fold_right (fun x acc => g x + acc) 0 l = sum_map g l.
Proof. reflexivity. Qed.

Lemma jsize_value_law : forall j, jfits j -> jsize_value j = len (jenc_value j).
Proof.
  induction j as [|s|z|b|b|l IH|l IH|s] using jv_ind'; intros Hf; cbn [jsize_value jenc_value jfits] in *;
    rewrite ?len_app, ?len_cons, ?len_nil.
  - reflexivity.
  - rewrite (size_append_varuint _ Hf). lia.
  - rewrite (size_append_varint _ Hf). lia.
  - rewrite len_le_bytes. reflexivity.
  - reflexivity.
  - destruct Hf as [Hc Hall]. apply jarr_items in Hall.
    rewrite (size_append_varuint _ Hc).
    assert (E : fold_right (fun x acc => size_varuint (jsize_value x) + jsize_value x + acc) 0 l
                = len (flat_map (fun x => lenframe (jenc_value x)) l)).
    { apply (sum_flat (fun x => size_varuint (jsize_value x) + jsize_value x)).
      rewrite Forall_forall in *. intros x Hx. destruct (Hall x Hx) as [Hjx Hlx].
      rewrite (IH x Hx Hjx). rewrite lenframe_len by exact Hlx. reflexivity. }
    rewrite E. lia.
  - destruct Hf as [Hc Hall]. apply jobj_items in Hall.
    rewrite (size_append_varuint _ Hc).
    assert (E : fold_right (fun kx acc =>
                  let s := 1 + size_varuint (len (fst kx)) + len (fst kx) + jsize_value (snd kx) in
                  size_varuint s + s + acc) 0 l
                = len (flat_map (fun kx => lenframe ([10] ++ append_varuint (len (fst kx)) ++ fst kx ++ jenc_value (snd kx))) l)).
    { apply (sum_flat (fun kx => let s := 1 + size_varuint (len (fst kx)) + len (fst kx) + jsize_value (snd kx) in size_varuint s + s)).
      rewrite Forall_forall in *. intros kx Hx. destruct (Hall kx Hx) as (Hjx & Hk & Hlx).
      cbv zeta. rewrite (IH kx Hx Hjx).
      unfold jenc_kv in Hlx.
      assert (Hb : 1 + size_varuint (len (fst kx)) + len (fst kx) + len (jenc_value (snd kx))
                   = len ([10] ++ append_varuint (len (fst kx)) ++ fst kx ++ jenc_value (snd kx))).
      { rewrite !len_app, len_cons, len_nil. rewrite (size_append_varuint _ Hk). lia. }
      rewrite Hb. rewrite lenframe_len by exact Hlx. reflexivity. }
    cbv zeta in E. rewrite E. lia.
  - rewrite (size_append_varuint _ Hf). lia.
Qed.

Lemma jarr_size_law l : jfits (JArr l) -> jarr_size l = len (jarr_body l).
Proof.
  intros [Hc Hall]. apply jarr_items in Hall. unfold jarr_size, jarr_body.
  rewrite len_app, (size_append_varuint _ Hc). f_equal.
  apply (sum_flat (fun x => size_varuint (jsize_value x) + jsize_value x)).
  rewrite Forall_forall in *. intros x Hx. destruct (Hall x Hx) as [Hjx Hlx].
  rewrite (jsize_value_law x Hjx), lenframe_len by exact Hlx. reflexivity.
Qed.

Lemma jmap_size_law l : jfits (JObj l) -> jmap_size l = len (jmap_body l).
Proof.
  intros [Hc Hall]. apply jobj_items in Hall. unfold jmap_size, jmap_body.
  rewrite len_app, (size_append_varuint _ Hc). f_equal.
  apply (sum_flat (fun kx => let s := 1 + size_varuint (len (fst kx)) + len (fst kx) + jsize_value (snd kx) in size_varuint s + s)).
  rewrite Forall_forall in *. intros kx Hx. destruct (Hall kx Hx) as (Hjx & Hk & Hlx).
  cbv zeta. rewrite (jsize_value_law _ Hjx).
  assert (Hb : 1 + size_varuint (len (fst kx)) + len (fst kx) + len (jenc_value (snd kx))
               = len (jenc_kv (fst kx) (snd kx))).
  { unfold jenc_kv. rewrite !len_app, len_cons, len_nil. rewrite (size_append_varuint _ Hk). lia. }
  rewrite Hb, lenframe_len by exact Hlx. reflexivity.
Qed.

(** ** The size law *)

Lemma u64_lt z : u64 z < two64.
Proof.
  unfold u64, two64, two64Z. pose proof (Z.mod_pos_bound z 18446744073709551616 ltac:(lia)). lia.
Qed.

Lemma ubits_lt b z : b <= 64 -> ubits b z < two64.
Proof.
  intros Hb. unfold ubits.
  assert (Hp : 0 < 2 ^ b) by (apply N.neq_0_lt_0, N.pow_nonzero; lia).
  pose proof (Z.mod_pos_bound z (Z.of_N (2 ^ b)) ltac:(lia)) as Hm.
  assert (2 ^ b <= 2 ^ 64) by (apply N.pow_le_mono_r; lia).
  change (2 ^ 64) with two64 in *. lia.
Qed.

Lemma time_size_law compat s n :
  (compat = false -> int64_ok s /\ int64_ok n) ->
  time_size compat s n = len (time_body compat s n) /\ len (time_body compat s n) < two64.
Proof.
  intros H. unfold time_size, time_body. destruct compat.
  - rewrite !len_app, !len_cons, !len_nil.
    rewrite (size_append_varuint _ (u64_lt s)), (size_append_varuint _ (ubits_lt 32 n ltac:(lia))).
    pose proof (append_varuint_length_bounds (u64 s)). pose proof (append_varuint_length_bounds (ubits 32 n)).
    unfold two64. split; lia.
  - destruct (H eq_refl) as [Hs Hn].
    rewrite !len_app, !len_cons, !len_nil.
    rewrite (size_append_varint _ Hs), (size_append_varint _ Hn).
    pose proof (append_varuint_length_bounds (zigzag s)). pose proof (append_varuint_length_bounds (zigzag n)).
    unfold append_varint, two64. split; lia.
Qed.

Lemma zero_sec_ok : int64_ok zero_sec /\ int64_ok 0%Z.
Proof. unfold int64_ok, zero_sec, two63Z. lia. Qed.

Lemma is_fixed_width : forall c, is_fixed c = true -> forall v tag,
  len (enc c v tag) = fixed_width c + len tag.
Proof.
  induction c using codec_ind'; intros Hf v tag; try discriminate Hf.
  - cbn [enc fixed_width]. rewrite len_app, len_le_bytes. lia.
  - cbn [enc fixed_width]. rewrite len_app, len_le_bytes. lia.
  - cbn [enc fixed_width is_fixed] in *. apply IHc. exact Hf.
Qed.

Lemma fixed_flat c l : is_fixed c = true ->
  fixed_width c * N.of_nat (length l) = len (flat_map (fun x => enc c x []) l).
Proof.
  intros Hfix. induction l as [|x l IHl]; cbn [flat_map length]; [rewrite len_nil; lia|].
  rewrite len_app, <- IHl, (is_fixed_width c Hfix x []), len_nil. lia.
Qed.

(** C05: reported size = appended length, for every codec tree, every value
    and every tag (nil or not). *)
Theorem size_law : forall c v tag, fits c v -> size c v tag = len (enc c v tag).
Proof.
  induction c as [ |b|b|b| | | | |compat| |c IH|c IH|nm n fs IH|c IH|c IH|c IH|c IH|kc vc IHk IHv|kc vc IHk IHv| | | ]
    using codec_ind'; intros v tag Hf; cbn [size enc] in *.
  - (* CBool *) rewrite len_app.
    assert (H : forall x, x = 0 \/ x = 1 -> len (append_varuint x) = 1) by (intros x [->| ->]; reflexivity).
    rewrite H; [lia|]. destruct v as [[|]| | | | | | | | | | | |]; auto.
  - (* CInt *) rewrite len_app. cbn [fits] in Hf.
    destruct v; try (rewrite size_append_varint by (unfold int64_ok, two63Z; lia); unfold append_varint; lia).
    rewrite (size_append_varint _ Hf). unfold append_varint. lia.
  - (* CUint *) rewrite len_app.
    destruct v; try (rewrite size_append_varuint by (unfold two64; lia); lia).
    rewrite (size_append_varuint _ (u64_lt z)). lia.
  - (* CFlat *) rewrite len_app. cbn [fits] in Hf.
    destruct v; try (rewrite size_append_varuint by (unfold two64; lia); lia).
    rewrite (size_append_varuint _ (ubits_lt b z Hf)). lia.
  - rewrite len_app, len_le_bytes. lia.
  - rewrite len_app, len_le_bytes. lia.
  - (* CString *) apply frame_law. exact Hf.
  - (* CBytes *) apply frame_law. exact Hf.
  - (* CTime *) cbn [fits] in Hf.
    destruct v; try (destruct (time_size_law compat zero_sec 0 (fun _ => zero_sec_ok)) as [E L]; rewrite E; apply frame_law; exact L).
    destruct (time_size_law compat sec nsec Hf) as [E L]. rewrite E. apply frame_law. exact L.
  - (* CBQ *) rewrite len_app.
    destruct v; try (rewrite size_append_varuint by (unfold two64; lia); lia).
    rewrite (size_append_varuint _ (u64_lt _)). lia.
  - (* CNull *) apply IH. exact Hf.
  - (* CPtr *) cbn [fits] in Hf. destruct v as [ | | | | | |[p|]| | | | | |]; try reflexivity. apply IH. exact Hf.
  - (* CStruct *)
    pose proof (fits_struct_fields _ _ _ _ Hf) as Hfs. destruct Hf as [_ Hlen].
    cbn [enc frame_tag] in Hlen.
    set (h := fun f : fld codec =>
           if omit (f_codec f) (slot (struct_fields v) (f_slot f)) then []
           else enc (f_codec f) (slot (struct_fields v) (f_slot f)) (field_tag (f_codec f) (f_index f))) in *.
    rewrite (sum_flat _ h).
    + apply frame_law. exact Hlen.
    + rewrite Forall_forall in *. intros f Hin. unfold h.
      destruct (omit (f_codec f) (slot (struct_fields v) (f_slot f))); [reflexivity|].
      apply (IH f Hin). apply (Hfs f Hin).
  - (* CSliceVar *) destruct Hf as [Hall Hlen]. cbn [enc frame_tag] in Hlen.
    rewrite (sum_flat _ (fun x => enc c x [])).
    + apply frame_law. exact Hlen.
    + rewrite Forall_forall in *. intros x Hx. apply IH, Hall, Hx.
  - (* CSliceFix *) destruct Hf as (Hfix & Hall & Hlen). cbn [enc frame_tag] in Hlen.
    rewrite (fixed_flat c _ Hfix). apply frame_law. exact Hlen.
  - (* CSliceLen *) destruct Hf as [Hc Hall].
    rewrite !len_app, (size_append_varuint _ Hc).
    rewrite (sum_flat _ (fun x => lenframe (enc c x []))).
    + lia.
    + rewrite Forall_forall in *. intros x Hx. destruct (Hall x Hx) as [Hfx Hlx]. cbv zeta.
      rewrite (IH x [] Hfx), lenframe_len by exact Hlx. lia.
  - (* CSliceProto *) cbn [fits] in Hf. apply sum_flat.
    rewrite Forall_forall in *. intros x Hx. apply IH, Hf, Hx.
  - (* CMap *) destruct Hf as [Hc Hall].
    change (match v with VMap (Some es) => es | _ => [] end) with (map_entries_of v).
    rewrite !len_app, (size_append_varuint _ Hc).
    rewrite (sum_flat _ (fun e => lenframe (entry_body kc vc e))).
    + unfold entry_body. lia.
    + rewrite Forall_forall in *. intros e He. destruct (Hall e He) as (Hk & Hv & Hl). cbv zeta.
      assert (E : (if omit kc (fst e) then 0 else size kc (fst e) (field_tag kc 1))
                  + (if omit vc (snd e) then 0 else size vc (snd e) (field_tag vc 2))
                  = len (entry_body kc vc e)).
      { unfold entry_body. rewrite len_app.
        destruct (omit kc (fst e)), (omit vc (snd e)); rewrite ?len_nil, ?(IHk _ _ Hk), ?(IHv _ _ Hv); reflexivity. }
      rewrite E, lenframe_len by exact Hl. reflexivity.
  - (* CMapProto *) destruct Hf as [Hc Hall].
    change (match v with VMap (Some es) => es | _ => [] end) with (map_entries_of v).
    apply (sum_flat _ (fun e => tag ++ lenframe (entry_body kc vc e))).
    rewrite Forall_forall in *. intros e He. destruct (Hall e He) as (Hk & Hv & Hl). cbv zeta.
    assert (E : (if omit kc (fst e) then 0 else size kc (fst e) (field_tag kc 1))
                + (if omit vc (snd e) then 0 else size vc (snd e) (field_tag vc 2))
                = len (entry_body kc vc e)).
    { unfold entry_body. rewrite len_app.
      destruct (omit kc (fst e)), (omit vc (snd e)); rewrite ?len_nil, ?(IHk _ _ Hk), ?(IHv _ _ Hv); reflexivity. }
    rewrite E, len_app, lenframe_len by exact Hl. lia.
  - (* CJMap *) rewrite len_app. cbn [fits] in Hf.
    assert (Hnil : jfits (JObj [])) by (cbn; split; [unfold two64; lia|exact I]).
    assert (Hj : jfits (JObj (match v with VJson _ (JObj l) => l | _ => [] end))).
    { destruct v; try exact Hnil. destruct j; try exact Hnil. exact Hf. }
    rewrite (jmap_size_law _ Hj). lia.
  - (* CJArr *) rewrite len_app. cbn [fits] in Hf.
    assert (Hnil : jfits (JArr [])) by (cbn; split; [unfold two64; lia|exact I]).
    assert (Hj : jfits (JArr (match v with VJson _ (JArr l) => l | _ => [] end))).
    { destruct v; try exact Hnil. destruct j; try exact Hnil. exact Hf. }
    rewrite (jarr_size_law _ Hj). lia.
  - reflexivity.
Qed.

(** C05 framing: a tagged length-delimited encoding is the tag, the varint
    length of the body, then the body the untagged form produces. *)
Definition framed_codec (c : codec) : bool :=
  match c with
  | CString | CBytes | CTime _ | CStruct _ _ _ | CSliceVar _ | CSliceFix _ => true
  | _ => false
  end.

Theorem frame_shape : forall c v tag, framed_codec c = true -> tag <> [] ->
  enc c v tag = tag ++ append_varuint (len (enc c v [])) ++ enc c v [].
Proof.
  intros c v tag Hc Ht. destruct c; try discriminate Hc; cbn [enc frame_tag];
    destruct tag as [|t tg]; try congruence; reflexivity.
Qed.

(** the protobuf repeated-field form: one such frame per element *)
Theorem proto_slice_shape : forall c v tag,
  enc (CSliceProto c) v tag = flat_map (fun x => enc c x tag) (slice_elems v).
Proof. reflexivity. Qed.

(** self-delimiting (varint / fixed) codecs: the tag is simply prepended *)
Definition scalar_codec (c : codec) : bool :=
  match c with CBool | CInt _ | CUint _ | CFlat _ | CF32 | CF64 | CBQ => true | _ => false end.
Theorem scalar_shape : forall c v tag, scalar_codec c = true -> enc c v tag = tag ++ enc c v [].
Proof. intros c v tag Hc. destruct c; try discriminate Hc; reflexivity. Qed.
