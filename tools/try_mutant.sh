#!/bin/bash
# try_mutant.sh <dir with patch.diff/demo_test.go/meta.json> <check ids...>
# 1. confirms the seeded change in a scratch worktree (compiles, suite passes, demo fails with / passes without)
# 2. applies it to /repo, runs the given checks, and undoes it straight afterwards.
set -u
export GOFLAGS=-mod=mod GOPROXY=off GOSUMDB=off GOTOOLCHAIN=local
D=$1; shift
W=/tmp/mutant-wt
git -C /repo worktree remove --force $W >/dev/null 2>&1
git -C /repo worktree add -q --detach $W HEAD || exit 2
cp_to=$(python3 -c "import json;print(json.load(open('$D/meta.json'))['demo']['copy_to'])")
cmd=$(python3 -c "import json;print(json.load(open('$D/meta.json'))['demo']['cmd'])")
echo "== demo copy_to=$cp_to cmd=$cmd"
cp $D/demo_test.go $W/$cp_to
( cd $W && eval "$cmd" >/tmp/mutant-demo-clean.log 2>&1 ); clean=$?
( cd $W && git apply $D/patch.diff ) || { echo "PATCH DOES NOT APPLY"; git -C /repo worktree remove --force $W; exit 3; }
( cd $W && go build ./... ) || { echo "DOES NOT BUILD"; }
( cd $W && eval "$cmd" >/tmp/mutant-demo-mut.log 2>&1 ); mut=$?
rm -f $W/$cp_to
( cd $W && go test -vet=off -count=1 ./... 2>&1 | grep -v "no test files" ) > /tmp/mutant-suite.log; 
if grep -q "^FAIL\|^--- FAIL" /tmp/mutant-suite.log; then
  # retry (TestDescriptor is flaky on the pinned tree)
  ( cd $W && go test -vet=off -count=1 ./... 2>&1 | grep -v "no test files" ) > /tmp/mutant-suite.log
fi
if grep -q "^FAIL\|^--- FAIL" /tmp/mutant-suite.log && ! grep "^--- FAIL" /tmp/mutant-suite.log | grep -vq "TestDescriptor "; then
  ( cd $W && go test -vet=off -count=1 ./... 2>&1 | grep -v "no test files" ) > /tmp/mutant-suite.log
fi
suite=ok; grep -q "^FAIL\|^--- FAIL" /tmp/mutant-suite.log && suite=FAIL
echo "== confirmed: demo clean exit=$clean (want 0), demo with change exit=$mut (want !=0), existing suite: $suite"
git -C /repo worktree remove --force $W
# evidence files are rewritten by every run: what is committed must come from the unchanged tree
rm -rf /tmp/evidence.keep && cp -r /verif/evidence /tmp/evidence.keep
trap 'git -C /repo checkout -- .; cp /tmp/evidence.keep/*.json /verif/evidence/ 2>/dev/null' EXIT INT TERM
git -C /repo apply $D/patch.diff || exit 4
for c in "$@"; do
  out=$(cd /verif && timeout 600 bin/check $c 2>&1); rc=$?
  echo "== check $c exit=$rc"; echo "$out" | grep -E "VIOLATION|^  " | head -4
done
git -C /repo checkout -- .
cp /tmp/evidence.keep/*.json /verif/evidence/ 2>/dev/null
git -C /repo status --short
