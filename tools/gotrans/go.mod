module gotrans

go 1.23
