// gotrans translates the package plenccore of philpearl/plenc (varints.go,
// wire.go: the byte-level core every codec rests on) from Go source into
// Gallina, on every run. The translation is syntax-directed, statement by
// statement and operator by operator, for the subset of Go the package uses;
// anything outside the subset is an error (reported, never guessed):
//
//	integer types      N (unsigned) / Z (signed), every operator followed by the wrap of its width
//	conversions        u2u / u2s / s2u / s2s at the target width
//	[]byte             list N; len, append(x, b), data[a:] (bounds-checked: Panic)
//	multiple results   tuples;  (T, error) results and loops: the res monad (Err / Panic / Hang)
//	for / range        local fixpoints over explicit fuel / the list, early return as LRet
//	switch on a value  a chain of comparisons
//	binary.Uvarint, bits.Len64   primitives go_binary_Uvarint / go_bits_Len64 (GoSem.v)
//
// usage: gotrans <repo> <out.v>
package main

import (
	"fmt"
	"go/ast"
	"go/constant"
	"go/importer"
	"go/parser"
	"go/token"
	"go/types"
	"os"
	"path/filepath"
	"sort"
	"strings"
)

var (
	fset = token.NewFileSet()
	info = &types.Info{Types: map[ast.Expr]types.TypeAndValue{}, Defs: map[*ast.Ident]types.Object{}, Uses: map[*ast.Ident]types.Object{}, Selections: map[*ast.SelectorExpr]*types.Selection{}}
	pkg  *types.Package
	// functions of the package, and which of them live in the res monad (and take fuel)
	funcs   = map[string]*ast.FuncDecl{}
	monadic = map[string]bool{}
	// methods that read or write their (pointer) receiver
	usesRecv = map[string]bool{}
	// the functions of plenccore (translated separately into GenCore.v) and which of them are monadic
	coreFuncs   = map[string]bool{}
	coreMonadic = map[string]bool{}
	// methods that assign through their receiver (directly or by calling one that does): the receiver is
	// handed back with the results; a receiver that is only read is an ordinary parameter
	recvWritten = map[string]bool{}
	// unsafe.Pointer parameters used as the address of a struct in memory (uintptr(p)+offset): they carry a gval
	memParams = map[string]map[string]bool{}
	// the translation used the codec-interface / memory vocabulary of GoMem.v
	usedMem bool
	// unsafe.Pointer parameters a translated method writes through (handed back before its results), in order
	calleeOuts = map[string][]string{}
	// package-level variables with an initialiser that the translated functions refer to
	pkgVars = map[string]*ast.ValueSpec{}
	usedPkgVars = map[string]bool{}
	// functions translated into another generated module (analysed here, emitted there): key -> module
	externMod = map[string]string{}
)

// findIdent: the identifier called name inside e
func findIdent(e ast.Expr, name string) *ast.Ident {
	var found *ast.Ident
	ast.Inspect(e, func(n ast.Node) bool {
		if id, ok := n.(*ast.Ident); ok && id.Name == name && found == nil {
			found = id
		}
		return true
	})
	return found
}

func isParamOf(fd *ast.FuncDecl, o types.Object) bool {
	sig := info.Defs[fd.Name].Type().(*types.Signature)
	for i := 0; i < sig.Params().Len(); i++ {
		if sig.Params().At(i) == o {
			return true
		}
	}
	return false
}

func isTime(t types.Type) bool {
	if t == nil {
		return false
	}
	if p, ok := t.(*types.Pointer); ok {
		t = p.Elem()
	}
	return t.String() == "time.Time"
}

// ptrConvOf: e is (*T)(p) for an unsafe.Pointer variable p: returns p's name and T
func ptrConvOf(e ast.Expr) (string, types.Type, bool) {
	for {
		if pe, ok := e.(*ast.ParenExpr); ok {
			e = pe.X
			continue
		}
		break
	}
	c, ok := e.(*ast.CallExpr)
	if !ok || len(c.Args) != 1 {
		return "", nil, false
	}
	id, ok := c.Args[0].(*ast.Ident)
	if !ok {
		return "", nil, false
	}
	if o := info.Uses[id]; o == nil || !isUnsafePtr(o.Type()) {
		return "", nil, false
	}
	tv, ok := info.Types[c.Fun]
	if !ok || !tv.IsType() {
		return "", nil, false
	}
	pt, ok := tv.Type.(*types.Pointer)
	if !ok {
		return "", nil, false
	}
	return id.Name, pt.Elem(), true
}

// addrArgOf: e is unsafe.Pointer(&x) or unsafe.Pointer(&x.f): returns the place whose address is taken
func addrArgOf(e ast.Expr) (ast.Expr, bool) {
	c, ok := e.(*ast.CallExpr)
	if !ok || len(c.Args) != 1 {
		return nil, false
	}
	tv, has := info.Types[c.Fun]
	if !has || !tv.IsType() || !isUnsafePtr(tv.Type) {
		return nil, false
	}
	u, ok := c.Args[0].(*ast.UnaryExpr)
	if !ok || u.Op != token.AND {
		return nil, false
	}
	switch u.X.(type) {
	case *ast.Ident, *ast.SelectorExpr:
		return u.X, true
	}
	return nil, false
}

// isCodecItf: the interface type Codec of plenccodec (a method table, nil-able)
func isCodecItf(t types.Type) bool {
	n, ok := t.(*types.Named)
	if !ok {
		return false
	}
	_, isI := n.Underlying().(*types.Interface)
	return isI && n.Obj().Name() == "Codec"
}

func isUnsafePtr(t types.Type) bool { return t != nil && t.String() == "unsafe.Pointer" }


func fail(n ast.Node, format string, args ...any) {
	pos := ""
	if n != nil {
		pos = fset.Position(n.Pos()).String() + ": "
	}
	fmt.Fprintf(os.Stderr, "gotrans: %s%s\n", pos, fmt.Sprintf(format, args...))
	os.Exit(2)
}

// ---- types ----

type ikind struct {
	signed bool
	width  int
}

func intKind(t types.Type) (ikind, bool) {
	if tp, ok := t.(*types.TypeParam); ok {
		// a type parameter constrained to integer types of one signedness: its width is the Gallina variable w
		if iface, ok := tp.Constraint().Underlying().(*types.Interface); ok && iface.NumEmbeddeds() == 1 {
			if u, ok := iface.EmbeddedType(0).(*types.Union); ok && u.Len() > 0 {
				first, ok1 := intKind(u.Term(0).Type())
				if !ok1 {
					return ikind{}, false
				}
				for i := 1; i < u.Len(); i++ {
					k, ok2 := intKind(u.Term(i).Type())
					if !ok2 || k.signed != first.signed {
						return ikind{}, false
					}
				}
				return ikind{first.signed, -1}, true
			}
		}
		return ikind{}, false
	}
	b, ok := t.Underlying().(*types.Basic)
	if !ok {
		return ikind{}, false
	}
	switch b.Kind() {
	case types.Int, types.Int64:
		return ikind{true, 64}, true
	case types.Int32:
		return ikind{true, 32}, true
	case types.Int16:
		return ikind{true, 16}, true
	case types.Int8:
		return ikind{true, 8}, true
	case types.Uint, types.Uint64, types.Uintptr:
		return ikind{false, 64}, true
	case types.Uint32:
		return ikind{false, 32}, true
	case types.Uint16:
		return ikind{false, 16}, true
	case types.Uint8:
		return ikind{false, 8}, true
	case types.UntypedInt:
		return ikind{true, 0}, true // mathematical integer (constants only)
	}
	return ikind{}, false
}

func isBytes(t types.Type) bool {
	if b, ok := t.Underlying().(*types.Basic); ok && (b.Kind() == types.String || b.Kind() == types.UntypedString) {
		return true // a Go string, as the list of its bytes
	}
	s, ok := t.Underlying().(*types.Slice)
	if !ok {
		return false
	}
	b, ok := s.Elem().Underlying().(*types.Basic)
	return ok && b.Kind() == types.Uint8
}

func isError(t types.Type) bool { return t.String() == "error" }

// isFloat: float32 / float64 - a value of these types is carried as its IEEE bit pattern
func isFloat(t types.Type) (int, bool) {
	if b, ok := t.Underlying().(*types.Basic); ok {
		switch b.Kind() {
		case types.Float64, types.UntypedFloat:
			return 64, true
		case types.Float32:
			return 32, true
		}
	}
	return 0, false
}

func coqType(t types.Type, at ast.Node) string {
	if _, ok := isFloat(t); ok {
		return "N"
	}
	if isCodecItf(t) {
		usedMem = true
		return "(option gcodec)"
	}
	if isUnsafePtr(t) {
		usedMem = true
		return "gval" // the value the pointer points at
	}
	if t.String() == "reflect.Type" {
		return "unit" // only ever used in error messages
	}
	if t.String() == "time.Time" {
		usedMem = true
		return "gtime" // (Unix seconds, nanosecond) in UTC: GoMem.v
	}
	if arr, ok := t.Underlying().(*types.Array); ok {
		if b, ok := arr.Elem().Underlying().(*types.Basic); ok && b.Kind() == types.Uint8 {
			return "bytes" // a byte array, as the list of its elements
		}
	}
	if k, ok := intKind(t); ok {
		if k.signed {
			return "Z"
		}
		return "N"
	}
	if b, ok := t.Underlying().(*types.Basic); ok && b.Kind() == types.Bool {
		return "bool"
	}
	if isBytes(t) {
		return "bytes"
	}
	if n, ok := structName(t); ok {
		return n
	}
	if p, ok := t.Underlying().(*types.Pointer); ok {
		if n, ok := structName(p.Elem()); ok {
			return n // a pointer receiver: the record itself, threaded through
		}
	}
	if sl, ok := t.Underlying().(*types.Slice); ok {
		return "(list " + coqType(sl.Elem(), at) + ")"
	}
	fail(at, "unsupported type %s", t)
	return ""
}

// structName: a named struct type of the package
func structName(t types.Type) (string, bool) {
	n, ok := t.(*types.Named)
	if !ok {
		return "", false
	}
	if _, ok := n.Underlying().(*types.Struct); !ok {
		return "", false
	}
	return n.Obj().Name(), true
}

func zeroOf(t types.Type, at ast.Node) string {
	if _, ok := isFloat(t); ok {
		return "0%N"
	}
	if isCodecItf(t) {
		return "None"
	}
	if t.String() == "reflect.Type" {
		return "tt"
	}
	if t.String() == "time.Time" {
		return "go_time_zero"
	}
	if arr, ok := t.Underlying().(*types.Array); ok {
		return fmt.Sprintf("(repeat 0%%N %d)", arr.Len())
	}
	if k, ok := intKind(t); ok {
		if k.signed {
			return "0%Z"
		}
		return "0%N"
	}
	if b, ok := t.Underlying().(*types.Basic); ok && b.Kind() == types.Bool {
		return "false"
	}
	if n, ok := structName(t); ok {
		st := t.Underlying().(*types.Struct)
		var fs []string
		for i := 0; i < st.NumFields(); i++ {
			fs = append(fs, zeroOf(st.Field(i).Type(), at))
		}
		return "(mk" + n + " " + strings.Join(fs, " ") + ")"
	}
	if _, ok := t.Underlying().(*types.Slice); ok || isBytes(t) {
		return "[]"
	}
	fail(at, "no zero value for %s", t)
	return ""
}

// records: one Coq record per struct type, with a setter per field
func recordDefs(names []string) string {
	var out strings.Builder
	for _, n := range names {
		st := pkg.Scope().Lookup(n).Type().Underlying().(*types.Struct)
		var fs, ps []string
		for i := 0; i < st.NumFields(); i++ {
			fs = append(fs, fmt.Sprintf("%s_%s : %s", n, st.Field(i).Name(), coqType(st.Field(i).Type(), nil)))
		}
		out.WriteString(fmt.Sprintf("Record %s := mk%s { %s }.\n", n, n, strings.Join(fs, "; ")))
		for i := 0; i < st.NumFields(); i++ {
			ps = nil
			for k := 0; k < st.NumFields(); k++ {
				if k == i {
					ps = append(ps, "v")
				} else {
					ps = append(ps, fmt.Sprintf("(%s_%s r)", n, st.Field(k).Name()))
				}
			}
			out.WriteString(fmt.Sprintf("Definition set_%s_%s (r : %s) (v : %s) : %s := mk%s %s.\n", n, st.Field(i).Name(), n, coqType(st.Field(i).Type(), nil), n, n, strings.Join(ps, " ")))
		}
	}
	return out.String()
}

// ---- expressions ----

type gen struct {
	fn     *ast.FuncDecl
	mon    bool     // the function being translated is monadic
	rtypes []string // Coq types of the non-error results
	haserr bool
	tmp    int
	loopN  int
	recv   string // name of a pointer receiver the method uses ("" otherwise)
	recvT  string // its record type
	places map[string]place
	// unsafe.Pointer parameters: the value they point to travels instead (name -> Go type it is read at);
	// those the function writes through are handed back with the results
	ptrs    map[string]types.Type
	ptrsOut []string
	generic bool // the receiver type has an integer type parameter: width w
	recvRO  bool // the receiver is only read: a parameter, not a result
	mem     map[string]bool // unsafe.Pointer parameters that are the address of a struct in memory
	conts   []string        // what `continue` means in the enclosing loops (innermost last)
	scopeLo, scopeHi token.Pos // the loop body whose carried variables are being collected
	// pointer slots: t := (*unsafe.Pointer)(p) makes t another name for the slot p addresses;
	// t := *(*unsafe.Pointer)(p) holds the pointer stored there (nil or the address of a value)
	aliases map[string]string
	aliasT  map[string]string // for an alias of a pointer to a struct: the struct's name
	// p := unsafe.Add(arr, i*EltSize): p names element i of the array arr (index evaluated at the definition)
	elemPlaces map[types.Object]elemPlace
	placeBase  map[string]ast.Expr // (pre-scan) the array each element-place variable points into
	optVars map[string]bool
	// unsafe.Pointer parameters that address a pointer slot (read as *(*unsafe.Pointer)(p) into a fresh variable or through an alias)
	slotParam map[string]bool
}

type elemPlace struct {
	base ast.Expr // the array
	idx  string   // Gallina variable holding the index
}

// optExpr: e denotes a pointer value that may be nil (a loaded pointer): returns its Gallina term (an option)
func (g *gen) optExpr(e ast.Expr) (string, bool) {
	for {
		if pe, ok := e.(*ast.ParenExpr); ok {
			e = pe.X
			continue
		}
		break
	}
	if id, ok := e.(*ast.Ident); ok && g.optVars[id.Name] {
		return sane(id.Name), true
	}
	if st, ok := e.(*ast.StarExpr); ok {
		if id, ok := st.X.(*ast.Ident); ok {
			if base, ok := g.aliases[id.Name]; ok && g.aliasT[id.Name] == "" {
				return "(go_load_opt " + sane(base) + ")", true
			}
		}
	}
	if name, t, ok := derefOf(e); ok && isUnsafePtr(t) && g.slotParam[name] {
		return "(go_load_opt " + sane(name) + ")", true
	}
	return "", false
}

// memBaseOf: e is unsafe.Pointer(uintptr(p) + off): returns p and the offset expression
func memBaseOf(e ast.Expr) (string, ast.Expr, bool) {
	c, ok := e.(*ast.CallExpr)
	if !ok || len(c.Args) != 1 {
		return "", nil, false
	}
	tv, has := info.Types[c.Fun]
	if !has || !tv.IsType() || !isUnsafePtr(tv.Type) {
		return "", nil, false
	}
	b, ok := c.Args[0].(*ast.BinaryExpr)
	if !ok || b.Op != token.ADD {
		return "", nil, false
	}
	inner, ok := b.X.(*ast.CallExpr)
	if !ok || len(inner.Args) != 1 {
		return "", nil, false
	}
	if id, ok := inner.Fun.(*ast.Ident); !ok || id.Name != "uintptr" {
		return "", nil, false
	}
	pid, ok := inner.Args[0].(*ast.Ident)
	if !ok || !isUnsafePtr(info.Types[pid].Type) {
		return "", nil, false
	}
	return pid.Name, b.Y, true
}

// elemAddrOf: e is the address of element i of the array at X:
//   unsafe.Pointer(uintptr(X) + uintptr(i)*c.EltSize)   unsafe.Add(X, uintptr(i)*c.EltSize)   unsafe.Add(X, i*int(c.EltSize))
// returns X and i
func elemAddrOf(e ast.Expr) (ast.Expr, ast.Expr, bool) {
	c, ok := e.(*ast.CallExpr)
	if !ok {
		return nil, nil, false
	}
	var base, off ast.Expr
	if sel, ok := c.Fun.(*ast.SelectorExpr); ok && len(c.Args) == 2 {
		if id, ok := sel.X.(*ast.Ident); ok && id.Name == "unsafe" && sel.Sel.Name == "Add" {
			base, off = c.Args[0], c.Args[1]
		}
	}
	if base == nil && len(c.Args) == 1 {
		tv, has := info.Types[c.Fun]
		if has && tv.IsType() && isUnsafePtr(tv.Type) {
			if b, ok := c.Args[0].(*ast.BinaryExpr); ok && b.Op == token.ADD {
				if inner, ok := b.X.(*ast.CallExpr); ok && len(inner.Args) == 1 {
					if id, ok := inner.Fun.(*ast.Ident); ok && id.Name == "uintptr" {
						base, off = inner.Args[0], b.Y
					}
				}
			}
		}
	}
	if base == nil || !isUnsafePtr(info.Types[base].Type) {
		return nil, nil, false
	}
	m, ok := off.(*ast.BinaryExpr)
	if !ok || m.Op != token.MUL {
		return nil, nil, false
	}
	strip := func(x ast.Expr) ast.Expr {
		for {
			switch y := x.(type) {
			case *ast.ParenExpr:
				x = y.X
				continue
			case *ast.CallExpr:
				if tv, ok := info.Types[y.Fun]; ok && tv.IsType() && len(y.Args) == 1 {
					x = y.Args[0]
					continue
				}
			}
			return x
		}
	}
	isEltSize := func(x ast.Expr) bool {
		sel, ok := strip(x).(*ast.SelectorExpr)
		return ok && sel.Sel.Name == "EltSize"
	}
	switch {
	case isEltSize(m.Y):
		return base, strip(m.X), true
	case isEltSize(m.X):
		return base, strip(m.Y), true
	}
	return nil, nil, false
}

// checksErrAtOnce: the statement list starts with  if err != nil { return ..., <an error> }
func checksErrAtOnce(stmts []ast.Stmt, errName string) bool {
	if len(stmts) == 0 {
		return false
	}
	ifs, ok := stmts[0].(*ast.IfStmt)
	if !ok || ifs.Init != nil || ifs.Else != nil || len(ifs.Body.List) != 1 {
		return false
	}
	c, ok := ifs.Cond.(*ast.BinaryExpr)
	if !ok || c.Op != token.NEQ {
		return false
	}
	x, ok1 := c.X.(*ast.Ident)
	y, ok2 := c.Y.(*ast.Ident)
	if !ok1 || !ok2 || x.Name != errName || y.Name != "nil" {
		return false
	}
	r, ok := ifs.Body.List[0].(*ast.ReturnStmt)
	if !ok || len(r.Results) == 0 {
		return false
	}
	last := r.Results[len(r.Results)-1]
	if id, ok := last.(*ast.Ident); ok && id.Name == "nil" {
		return false
	}
	return isError(info.Types[last].Type) || info.Types[last].Type.String() == "error"
}

// derefOf: e is *(*T)(p) for an unsafe.Pointer parameter p: returns p's name and T
func derefOf(e ast.Expr) (string, types.Type, bool) {
	st, ok := e.(*ast.StarExpr)
	if !ok {
		return "", nil, false
	}
	c, ok := st.X.(*ast.CallExpr)
	if !ok || len(c.Args) != 1 {
		return "", nil, false
	}
	id, ok := c.Args[0].(*ast.Ident)
	if !ok {
		return "", nil, false
	}
	if o := info.Uses[id]; o == nil || o.Type().String() != "unsafe.Pointer" {
		return "", nil, false
	}
	tv, ok := info.Types[c.Fun]
	if !ok || !tv.IsType() {
		return "", nil, false
	}
	pt, ok := tv.Type.(*types.Pointer)
	if !ok {
		return "", nil, false
	}
	return id.Name, pt.Elem(), true
}

// place: a variable holding &container[idx]
type place struct {
	cont    string              // Gallina term of the container (a field of the receiver)
	setCont func(string) string // the let-binding that stores a new container
	idx     string              // Gallina variable holding the index
	elemT   string
}

// fkey: how a function or method is known to the translator ("f", "T.m")
func fkey(fd *ast.FuncDecl) string {
	if fd.Recv != nil {
		return recvBase(fd) + "." + fd.Name.Name
	}
	return fd.Name.Name
}

// recvBase: the receiver's type name without pointer and type arguments
func recvBase(fd *ast.FuncDecl) string {
	e := fd.Recv.List[0].Type
	for {
		switch x := e.(type) {
		case *ast.StarExpr:
			e = x.X
			continue
		case *ast.IndexExpr:
			e = x.X
			continue
		case *ast.ParenExpr:
			e = x.X
			continue
		case *ast.Ident:
			return x.Name
		}
		fail(fd, "unsupported receiver")
	}
}

// methodKey: the key of the method a selector call refers to ("" if it is not a call of a translated method)
func methodKey(sel *ast.SelectorExpr) string {
	if s, ok := info.Selections[sel]; ok && s.Kind() == types.MethodVal {
		if fn, ok := s.Obj().(*types.Func); ok {
			if r := fn.Type().(*types.Signature).Recv(); r != nil {
				rt := r.Type()
				if p, ok := rt.(*types.Pointer); ok {
					rt = p.Elem()
				}
				if n, ok := rt.(*types.Named); ok {
					k := n.Obj().Name() + "." + sel.Sel.Name
					if _, ok := funcs[k]; ok {
						return k
					}
				}
			}
		}
	}
	tv, ok := info.Types[sel.X]
	if !ok || tv.Type == nil {
		return ""
	}
	t := tv.Type
	if p, ok := t.(*types.Pointer); ok {
		t = p.Elem()
	}
	n, ok := t.(*types.Named)
	if !ok {
		return ""
	}
	k := n.Obj().Name() + "." + sel.Sel.Name
	if _, ok := funcs[k]; ok {
		return k
	}
	return ""
}

// coqName: the name of a function / method in the generated file
func coqName(fd *ast.FuncDecl) string {
	prefix := ""
	if m := externMod[fkey(fd)]; m != "" {
		prefix = m + "."
	}
	if fd.Recv != nil {
		return prefix + recvBase(fd) + "_" + fd.Name.Name
	}
	return prefix + sane(fd.Name.Name)
}

func recvTypeName(fd *ast.FuncDecl) string {
	return recvBase(fd)
}

func sane(name string) string {
	switch name {
	case "bits", "len", "tag", "index", "count", "fix", "fun", "end", "at", "in", "as", "do":
		return name + "_"
	}
	return name
}

func lit(v constant.Value, k ikind, at ast.Node) string {
	s := v.ExactString()
	if strings.HasPrefix(s, "-") {
		if !k.signed {
			fail(at, "negative constant of unsigned type")
		}
		return "(" + s + ")%Z"
	}
	if k.signed {
		return s + "%Z"
	}
	return s + "%N"
}

// count of a shift as an N
func (g *gen) shiftCount(e ast.Expr, pre *[]string) string {
	tv := info.Types[e]
	if tv.Value != nil {
		return tv.Value.ExactString() + "%N"
	}
	k, ok := intKind(tv.Type)
	if !ok {
		fail(e, "shift count of type %s", tv.Type)
	}
	x := g.expr(e, pre)
	if k.signed {
		return "(Z.to_N " + x + ")" // a negative count panics in Go: not used by the package
	}
	return x
}

func (g *gen) fresh(base string) string {
	g.tmp++
	return fmt.Sprintf("%s_%d", base, g.tmp)
}

// expr translates e to a Gallina term; effects (calls of monadic functions,
// slicing) are hoisted into *pre as "do x <- ...;" lines, in evaluation order.
func (g *gen) expr(e ast.Expr, pre *[]string) string {
	tv := info.Types[e]
	if _, isF := isFloat(tv.Type); isF && tv.Value != nil {
		if constant.Sign(tv.Value) == 0 {
			return "0%N" // the bit pattern of +0
		}
		fail(e, "floating-point constant other than 0")
	}
	if tv.Value != nil && tv.Value.Kind() == constant.Int {
		k, ok := intKind(tv.Type)
		if !ok {
			fail(e, "constant of type %s", tv.Type)
		}
		if k.width == 0 {
			k = ikind{true, 64}
		}
		return lit(tv.Value, k, e)
	}
	if tv.Value != nil && tv.Value.Kind() == constant.String {
		return bytesLit(constant.StringVal(tv.Value))
	}
	if name, t, ok := derefOf(e); ok {
		if isUnsafePtr(t) {
			usedMem = true
			return "(go_load_ptr " + sane(name) + ")" // the word a pointer-shaped field holds
		}
		return sane(name)
	}
	switch x := e.(type) {
	case *ast.StarExpr:
		if id, ok := x.X.(*ast.Ident); ok {
			if base, ok := g.aliases[id.Name]; ok && g.aliasT[id.Name] != "" {
				return sane(base) // *h: the record h is another name for
			}
		}
	case *ast.ParenExpr:
		return g.expr(x.X, pre)
	case *ast.IndexExpr:
		if !g.mon {
			fail(e, "index expression in a function that is not monadic")
		}
		k, _ := intKind(info.Types[x.Index].Type)
		idx := g.expr(x.Index, pre)
		if !k.signed {
			idx = "(Z.of_N " + idx + ")"
		}
		t := g.fresh("ix")
		prim := "go_nth"
		if isBytes(info.Types[x.X].Type) {
			prim = "go_index"
		} else if _, ok := info.Types[x.X].Type.Underlying().(*types.Slice); !ok {
			fail(e, "index into something other than a slice or string")
		}
		*pre = append(*pre, fmt.Sprintf("do %s <- %s \"%s.%s\" %s %s;", t, prim, g.fn.Name.Name, t, g.expr(x.X, pre), idx))
		return t
	case *ast.SelectorExpr:
		if id, ok := x.X.(*ast.Ident); ok {
			if g.recv != "" && id.Name == g.recv {
				if sel, ok := info.Selections[x]; !ok || sel.Kind() != types.FieldVal || len(sel.Index()) == 1 {
					return fmt.Sprintf("(%s_%s %s)", g.recvT, x.Sel.Name, sane(g.recv))
				}
			}
			if base, ok := g.aliases[id.Name]; ok && g.aliasT[id.Name] != "" {
				return fmt.Sprintf("(%s_%s %s)", g.aliasT[id.Name], x.Sel.Name, sane(base))
			}
			if pl, ok := g.places[id.Name]; ok {
				t := g.fresh("cur")
				*pre = append(*pre, fmt.Sprintf("do %s <- go_nth \"%s.%s\" %s %s;", t, g.fn.Name.Name, t, pl.cont, pl.idx))
				return fmt.Sprintf("(%s_%s %s)", pl.elemT, x.Sel.Name, t)
			}
		}
		if xt := info.Types[x.X].Type; xt != nil {
			if p, ok := xt.(*types.Pointer); ok {
				xt = p.Elem()
			}
			if sel, ok := info.Selections[x]; ok && sel.Kind() == types.FieldVal && len(sel.Index()) > 1 {
				// a field promoted from embedded structs: through each of them
				term := g.expr(x.X, pre)
				cur := xt
				for _, idx := range sel.Index() {
					n, ok := structName(cur)
					if !ok {
						fail(e, "unsupported selector expression")
					}
					fld := cur.Underlying().(*types.Struct).Field(idx)
					term = fmt.Sprintf("(%s_%s %s)", n, fld.Name(), term)
					cur = fld.Type()
				}
				return term
			}
			if n, ok := structName(xt); ok {
				return fmt.Sprintf("(%s_%s %s)", n, x.Sel.Name, g.expr(x.X, pre))
			}
		}
		fail(e, "unsupported selector expression")
	case *ast.CompositeLit:
		if isTime(tv.Type) && len(x.Elts) == 0 {
			return "go_time_zero"
		}
		n, ok := structName(tv.Type)
		if !ok {
			fail(e, "unsupported composite literal")
		}
		st := tv.Type.Underlying().(*types.Struct)
		vals := map[string]string{}
		for _, el := range x.Elts {
			kv, ok := el.(*ast.KeyValueExpr)
			if !ok {
				fail(e, "composite literal without field names")
			}
			vals[kv.Key.(*ast.Ident).Name] = g.expr(kv.Value, pre)
		}
		var fs []string
		for i := 0; i < st.NumFields(); i++ {
			if v, ok := vals[st.Field(i).Name()]; ok {
				fs = append(fs, v)
			} else {
				fs = append(fs, zeroOf(st.Field(i).Type(), e))
			}
		}
		return "(mk" + n + " " + strings.Join(fs, " ") + ")"
	case *ast.Ident:
		if x.Name == "true" || x.Name == "false" {
			return x.Name
		}
		if pl, ok := g.elemPlaces[info.Uses[x]]; ok && info.Uses[x] != nil {
			if !g.mon {
				fail(e, "element address in a function that is not monadic")
			}
			usedMem = true
			t := g.fresh("el")
			*pre = append(*pre, fmt.Sprintf("do %s <- go_elem \"%s.%s\" %s %s;", t, g.fn.Name.Name, t, g.expr(pl.base, pre), pl.idx))
			return t
		}
		if x.Name == "nil" {
			if _, isNil := info.Uses[x].(*types.Nil); isNil {
				return "[]" // a nil slice (nil interfaces only occur in comparisons, handled there)
			}
		}
		if o := info.Uses[x]; o != nil {
			if _, isVar := o.(*types.Var); isVar && o.Parent() == pkg.Scope() {
				if _, ok := pkgVars[x.Name]; !ok {
					fail(e, "package-level variable %s without a translatable initialiser", x.Name)
				}
				usedPkgVars[x.Name] = true
			}
		}
		return sane(x.Name)
	case *ast.UnaryExpr:
		k, ok := intKind(tv.Type)
		switch x.Op {
		case token.SUB:
			if !ok || !k.signed {
				fail(e, "unary minus on %s", tv.Type)
			}
			return fmt.Sprintf("(sneg %s %s)", wd(k), g.expr(x.X, pre))
		case token.NOT:
			return "(negb " + g.expr(x.X, pre) + ")"
		case token.ADD:
			return g.expr(x.X, pre)
		}
		fail(e, "unsupported unary operator %s", x.Op)
	case *ast.BinaryExpr:
		return g.binary(x, pre)
	case *ast.CallExpr:
		return g.call(x, pre)
	case *ast.SliceExpr:
		if x.Max == nil && x.Low == nil && x.High == nil {
			return g.expr(x.X, pre) // b[:] : the whole of it
		}
		if x.Max != nil {
			fail(e, "unsupported slice expression")
		}
		if !g.mon {
			fail(e, "slice expression in a function that is not monadic")
		}
		if x.Low != nil && x.High != nil {
			conv := func(b ast.Expr) string {
				k, _ := intKind(info.Types[b].Type)
				v := g.expr(b, pre)
				if !k.signed {
					v = "(Z.of_N " + v + ")"
				}
				return v
			}
			lo, hi := conv(x.Low), conv(x.High)
			t := g.fresh("sb")
			usedMem = true
			*pre = append(*pre, fmt.Sprintf("do %s <- go_slice_both \"%s.%s\" %s %s %s;", t, g.fn.Name.Name, t, g.expr(x.X, pre), lo, hi))
			return t
		}
		bound, prim, nm := x.Low, "go_slice_from", "sl"
		if x.High != nil {
			bound, prim, nm = x.High, "go_slice_to", "st"
		}
		k, _ := intKind(info.Types[bound].Type)
		b := g.expr(bound, pre)
		if !k.signed {
			b = "(Z.of_N " + b + ")"
		}
		t := g.fresh(nm)
		*pre = append(*pre, fmt.Sprintf("do %s <- %s \"%s.%s\" %s %s;", t, prim, g.fn.Name.Name, t, g.expr(x.X, pre), b))
		return t
	}
	fail(e, "unsupported expression %T", e)
	return ""
}

func bytesLit(v string) string {
	var parts []string
	for i := 0; i < len(v); i++ {
		parts = append(parts, fmt.Sprintf("%d", v[i]))
	}
	return "[" + strings.Join(parts, "; ") + "]"
}

func posOf(n ast.Node) string {
	p := fset.Position(n.Pos())
	return fmt.Sprintf("%s:%d", filepath.Base(p.Filename), p.Line)
}

func (g *gen) binary(x *ast.BinaryExpr, pre *[]string) string {
	lt := info.Types[x.X].Type
	if w, isF := isFloat(lt); isF {
		// the only floating-point operation in the subset: comparison with the constant 0
		if yv := info.Types[x.Y].Value; yv != nil && constant.Sign(yv) == 0 && (x.Op == token.EQL || x.Op == token.NEQ) {
			t := fmt.Sprintf("(go_f%d_is_zero %s)", w, g.expr(x.X, pre))
			if x.Op == token.NEQ {
				return "(negb " + t + ")"
			}
			return t
		}
		fail(x, "floating-point operation outside the subset")
	}
	switch x.Op {
	case token.LAND, token.LOR:
		a := g.expr(x.X, pre)
		var pre2 []string
		b := g.expr(x.Y, &pre2)
		if len(pre2) > 0 {
			// the right operand has effects (it can panic): it is only evaluated when Go evaluates it
			t := g.fresh("sc")
			if x.Op == token.LAND {
				*pre = append(*pre, fmt.Sprintf("do %s <- (if %s then (%s Ok %s) else Ok false);", t, a, strings.Join(pre2, " "), b))
			} else {
				*pre = append(*pre, fmt.Sprintf("do %s <- (if %s then Ok true else (%s Ok %s));", t, a, strings.Join(pre2, " "), b))
			}
			return t
		}
		if x.Op == token.LAND {
			return "(" + a + " && " + b + ")"
		}
		return "(" + a + " || " + b + ")"
	}
	if x.Op == token.EQL || x.Op == token.NEQ {
		isNil := func(e ast.Expr) bool { id, ok := e.(*ast.Ident); return ok && id.Name == "nil" }
		var other ast.Expr
		if isNil(x.Y) {
			other = x.X
		} else if isNil(x.X) {
			other = x.Y
		}
		if other != nil {
			if o, ok := g.optExpr(other); ok {
				usedMem = true
				t := "(go_is_nil " + o + ")"
				if x.Op == token.NEQ {
					return "(negb " + t + ")"
				}
				return t
			}
		}
		if other != nil && isCodecItf(info.Types[other].Type) {
			usedMem = true
			t := "(go_is_nil " + g.expr(other, pre) + ")"
			if x.Op == token.NEQ {
				return "(negb " + t + ")"
			}
			return t
		}
	}
	// the operand type: for comparisons the (common) operand type, for shifts the left operand
	ot := lt
	if info.Types[x.X].Value != nil {
		if x.Op != token.SHL && x.Op != token.SHR {
			ot = info.Types[x.Y].Type
		}
	}
	k, ok := intKind(ot)
	if !ok || k.width == 0 {
		fail(x, "operator %s on %s", x.Op, ot)
	}
	if x.Op == token.SHL || x.Op == token.SHR {
		a := g.expr(x.X, pre)
		c := g.shiftCount(x.Y, pre)
		switch {
		case x.Op == token.SHL && k.signed:
			return fmt.Sprintf("(sshl %s %s %s)", wd(k), a, c)
		case x.Op == token.SHL:
			return fmt.Sprintf("(ushl %s %s %s)", wd(k), a, c)
		case k.signed:
			return fmt.Sprintf("(sshr %s %s)", a, c)
		}
		return fmt.Sprintf("(ushr %s %s)", a, c)
	}
	a := g.expr(x.X, pre)
	b := g.expr(x.Y, pre)
	p := "u"
	sc := "N"
	if k.signed {
		p = "s"
		sc = "Z"
	}
	switch x.Op {
	case token.ADD:
		return fmt.Sprintf("(%sadd %s %s %s)", p, wd(k), a, b)
	case token.SUB:
		return fmt.Sprintf("(%ssub %s %s %s)", p, wd(k), a, b)
	case token.MUL:
		return fmt.Sprintf("(%smul %s %s %s)", p, wd(k), a, b)
	case token.QUO, token.REM:
		// only by a non-zero constant (anything else can panic: outside the subset)
		if dv := info.Types[x.Y].Value; dv == nil || constant.Sign(dv) == 0 {
			// the divisor is computed: a zero divisor panics
			if !g.mon || !k.signed || x.Op != token.QUO {
				fail(x, "division by something other than a non-zero constant")
			}
			usedMem = true
			t := g.fresh("dv")
			*pre = append(*pre, fmt.Sprintf("do %s <- go_sdiv \"%s.%s\" %s %s %s;", t, g.fn.Name.Name, t, wd(k), a, b))
			return t
		}
		name := "div"
		if x.Op == token.REM {
			name = "rem"
		}
		if k.signed {
			return fmt.Sprintf("(s%s %s %s %s)", name, wd(k), a, b)
		}
		return fmt.Sprintf("(u%s %s %s)", name, a, b)
	case token.AND:
		return fmt.Sprintf("(%s.land %s %s)", sc, a, b)
	case token.OR:
		return fmt.Sprintf("(%s.lor %s %s)", sc, a, b)
	case token.XOR:
		return fmt.Sprintf("(%s.lxor %s %s)", sc, a, b)
	case token.LSS:
		return fmt.Sprintf("(%s.ltb %s %s)", sc, a, b)
	case token.LEQ:
		return fmt.Sprintf("(%s.leb %s %s)", sc, a, b)
	case token.GTR:
		return fmt.Sprintf("(%s.ltb %s %s)", sc, b, a)
	case token.GEQ:
		return fmt.Sprintf("(%s.leb %s %s)", sc, b, a)
	case token.EQL:
		return fmt.Sprintf("(%s.eqb %s %s)", sc, a, b)
	case token.NEQ:
		return fmt.Sprintf("(negb (%s.eqb %s %s))", sc, a, b)
	}
	fail(x, "unsupported operator %s", x.Op)
	return ""
}

func (g *gen) call(x *ast.CallExpr, pre *[]string) string {
	// conversion?
	if base, idx, ok := elemAddrOf(x); ok {
		// the address of element idx of the array at base: the element (out of range: a fault, conservatively)
		if !g.mon {
			fail(x, "element address in a function that is not monadic")
		}
		usedMem = true
		k, _ := intKind(info.Types[idx].Type)
		iv := g.expr(idx, pre)
		if !k.signed {
			iv = "(Z.of_N " + iv + ")"
		}
		t := g.fresh("el")
		*pre = append(*pre, fmt.Sprintf("do %s <- go_elem \"%s.%s\" %s %s;", t, g.fn.Name.Name, t, g.expr(base, pre), iv))
		return t
	}
	if base, off, ok := memBaseOf(x); ok {
		if !g.mem[base] {
			fail(x, "pointer arithmetic on something other than a struct address parameter")
		}
		usedMem = true
		return fmt.Sprintf("(go_field_get %s %s)", sane(base), g.expr(off, pre))
	}
	if tv, ok := info.Types[x.Fun]; ok && tv.IsType() {
		// string(b), []byte(s), []byte(nil): byte strings are lists of bytes either way
		if isBytes(tv.Type) {
			if id, ok := x.Args[0].(*ast.Ident); ok && id.Name == "nil" {
				return "[]"
			}
			if isBytes(info.Types[x.Args[0]].Type) {
				return g.expr(x.Args[0], pre)
			}
		}
		to, ok1 := intKind(tv.Type)
		from, ok2 := intKind(info.Types[x.Args[0]].Type)
		if !ok1 || !ok2 {
			fail(x, "unsupported conversion to %s", tv.Type)
		}
		a := g.expr(x.Args[0], pre)
		if from.width == 0 {
			return a // a constant: already printed at its type
		}
		return fmt.Sprintf("(%s2%s %s %s)", sgn(from), sgn(to), wd(to), a)
	}
	switch f := x.Fun.(type) {
	case *ast.Ident:
		switch f.Name {
		case "len":
			return "(go_len " + g.expr(x.Args[0], pre) + ")"
		case "append":
			if x.Ellipsis.IsValid() {
				if len(x.Args) != 2 || !isBytes(info.Types[x.Args[1]].Type) {
					fail(x, "unsupported form of append")
				}
				return "(" + g.expr(x.Args[0], pre) + " ++ " + g.expr(x.Args[1], pre) + ")"
			}
			var els []string
			base := g.expr(x.Args[0], pre)
			for _, a := range x.Args[1:] {
				els = append(els, g.expr(a, pre))
			}
			return "(" + base + " ++ [" + strings.Join(els, "; ") + "])"
		}
		if f.Name == "unsafe_NewArray" && len(x.Args) == 2 {
			// a new backing array: n zero elements (the element type travels as its zero value)
			usedMem = true
			return fmt.Sprintf("(go_new_array %s %s)", g.expr(x.Args[0], pre), g.expr(x.Args[1], pre))
		}
		if _, ok := funcs[f.Name]; ok {
			var args []string
			for _, a := range x.Args {
				args = append(args, g.expr(a, pre))
			}
			if monadic[f.Name] {
				if !g.mon {
					fail(x, "call of monadic %s from a pure function", f.Name)
				}
				t := g.fresh("r")
				*pre = append(*pre, fmt.Sprintf("do %s <- %s fuel %s;", t, coqName(funcs[f.Name]), strings.Join(args, " ")))
				return t
			}
			return "(" + coqName(funcs[f.Name]) + " " + strings.Join(args, " ") + ")"
		}
	case *ast.SelectorExpr:
		if inner, ok := f.X.(*ast.SelectorExpr); ok {
			if p, ok := inner.X.(*ast.Ident); ok && p.Name == "binary" && inner.Sel.Name == "LittleEndian" {
				width := map[string]int{"Uint64": 8, "Uint32": 4, "Uint16": 2}[f.Sel.Name]
				if width == 0 || !g.mon {
					fail(x, "unsupported use of binary.LittleEndian")
				}
				t := g.fresh("le")
				*pre = append(*pre, fmt.Sprintf("do %s <- go_le_get \"%s.%s\" %d %s;", t, g.fn.Name.Name, t, width, g.expr(x.Args[0], pre)))
				return t
			}
		}
		if xt := info.Types[f.X].Type; isTime(xt) {
			// methods of time.Time: a time travels as (Unix seconds, nanosecond), always UTC (GoSem.v)
			var recv string
			if name, t, ok := ptrConvOf(f.X); ok && isTime(t) {
				recv = sane(name)
			} else {
				recv = g.expr(f.X, pre)
			}
			switch f.Sel.Name {
			case "UTC":
				return recv
			case "Unix", "Nanosecond", "IsZero", "UnixMicro":
				return fmt.Sprintf("(go_time_%s_ %s)", f.Sel.Name, recv)
			}
			fail(x, "method %s of time.Time outside the subset", f.Sel.Name)
		}
		if mk := methodKey(f); mk != "" {
			if _, isId := f.X.(*ast.Ident); !isId || len(calleeOuts[mk]) > 0 || hasAddrArg(x) {
				// a translated method on a receiver without state (a composite literal, an embedded codec),
				// possibly with unsafe.Pointer(&place) arguments
				if recvWritten[mk] || usesRecv[mk] {
					fail(x, "a method that uses its receiver is called on something other than a variable")
				}
				if len(calleeOuts[mk]) > 0 {
					fail(x, "a method that writes through a pointer argument is called inside an expression")
				}
				args, _ := g.methodArgs(mk, f, x, pre)
				fd := funcs[mk]
				if monadic[mk] {
					if !g.mon {
						fail(x, "call of monadic %s from a pure function", mk)
					}
					t := g.fresh("r")
					*pre = append(*pre, fmt.Sprintf("do %s <- %s fuel %s;", t, coqName(fd), strings.Join(args, " ")))
					return t
				}
				return "(" + coqName(fd) + " " + strings.Join(args, " ") + ")"
			}
		}
		if isCodecItf(info.Types[f.X].Type) {
			// a method of the Codec interface: the method table must be there (a nil interface panics)
			usedMem = true
			if !g.mon {
				fail(x, "interface method call in a function that is not monadic")
			}
			recvE := g.expr(f.X, pre)
			var args []string
			for _, a := range x.Args {
				if id, ok := a.(*ast.Ident); ok && id.Name == "nil" {
					if sig, ok := info.Types[x.Fun].Type.(*types.Signature); ok && len(args) < sig.Params().Len() && isUnsafePtr(sig.Params().At(len(args)).Type()) {
						usedMem = true
						args = append(args, "go_nilptr") // Size(nil, nil): the width of a fixed-size element
						continue
					}
				}
				if o, ok := g.optExpr(a); ok {
					// a pointer that may be nil handed to the codec: the codec works on what it points to
					av := g.fresh("pt")
					*pre = append(*pre, fmt.Sprintf("do %s <- go_itf \"%s.%s\" %s;", av, g.fn.Name.Name, av, o))
					args = append(args, av)
					continue
				}
				args = append(args, g.expr(a, pre))
			}
			cd := g.fresh("cd")
			*pre = append(*pre, fmt.Sprintf("do %s <- go_itf \"%s.%s\" %s;", cd, g.fn.Name.Name, cd, recvE))
			switch f.Sel.Name {
			case "New":
				return fmt.Sprintf("(gc_New %s)", cd)
			case "Omit", "Size":
				return fmt.Sprintf("(gc_%s %s %s)", f.Sel.Name, cd, strings.Join(args, " "))
			case "WireType":
				return fmt.Sprintf("(gc_WireType %s)", cd)
			case "Append":
				t := g.fresh("r")
				*pre = append(*pre, fmt.Sprintf("do %s <- gc_Append %s fuel %s;", t, cd, strings.Join(args, " ")))
				return t
			}
			fail(x, "method %s of the Codec interface outside the subset (Read: only as  n, err := c.Read(...))", f.Sel.Name)
		}
		if p, ok := f.X.(*ast.Ident); ok {
			if mk := methodKey(f); mk != "" {
				fd := funcs[mk]
				if recvWritten[mk] {
					fail(x, "a method that changes its receiver is called inside an expression")
				}
				var args []string
				if usesRecv[mk] {
					args = append(args, g.expr(p, pre)) // a receiver that is only read
				}
				for _, a := range x.Args {
					args = append(args, g.expr(a, pre))
				}
				if _, isGeneric := fd.Recv.List[0].Type.(*ast.IndexExpr); isGeneric {
					args = append([]string{"w"}, args...)
				}
				if monadic[mk] {
					t := g.fresh("r")
					*pre = append(*pre, fmt.Sprintf("do %s <- %s fuel %s;", t, coqName(fd), strings.Join(args, " ")))
					return t
				}
				return "(" + coqName(fd) + " " + strings.Join(args, " ") + ")"
			}
			if p.Name == "plenccore" && coreFuncs[f.Sel.Name] {
				var args []string
				for _, a := range x.Args {
					args = append(args, g.expr(a, pre))
				}
				if coreMonadic[f.Sel.Name] {
					if !g.mon {
						fail(x, "call of monadic plenccore.%s from a pure function", f.Sel.Name)
					}
					t := g.fresh("r")
					*pre = append(*pre, fmt.Sprintf("do %s <- GenCore.%s fuel %s;", t, f.Sel.Name, strings.Join(args, " ")))
					return t
				}
				return "(GenCore." + f.Sel.Name + " " + strings.Join(args, " ") + ")"
			}
			name := p.Name + "." + f.Sel.Name
			switch name {
			case "math.Float64bits", "math.Float64frombits", "math.Float32bits", "math.Float32frombits":
				return g.expr(x.Args[0], pre) // floats travel as their bit patterns
			case "binary.Uvarint":
				return "(go_binary_Uvarint " + g.expr(x.Args[0], pre) + ")"
			case "bits.Len64":
				return "(go_bits_Len64 " + g.expr(x.Args[0], pre) + ")"
			case "time.Unix":
				return "(go_time_Unix " + g.expr(x.Args[0], pre) + " " + g.expr(x.Args[1], pre) + ")"
			case "time.UnixMicro":
				return "(go_time_UnixMicro " + g.expr(x.Args[0], pre) + ")"
			}
		}
	}
	fail(x, "unsupported call")
	return ""
}

func hasAddrArg(x *ast.CallExpr) bool {
	for _, a := range x.Args {
		if _, ok := addrArgOf(a); ok {
			return true
		}
	}
	return false
}

// outStore: a place the caller handed to a callee as unsafe.Pointer(&place) and that the callee writes
type outStore struct {
	place ast.Expr
	back  func(string) string // converts the value the callee hands back to the place's type
}

// instType: the type a generic callee uses a pointer at, with the receiver's type argument filled in
func instType(t types.Type, recvT types.Type) types.Type {
	if _, ok := t.(*types.TypeParam); !ok {
		return t
	}
	if p, ok := recvT.(*types.Pointer); ok {
		recvT = p.Elem()
	}
	if n, ok := recvT.(*types.Named); ok && n.TypeArgs() != nil && n.TypeArgs().Len() == 1 {
		return n.TypeArgs().At(0)
	}
	return t
}

// reinterpret: the conversion of a value held at type `from` to what a pointer of type *to reads there
func reinterpret(v string, from, to types.Type, at ast.Node) string {
	if types.Identical(from, to) {
		return v
	}
	fk, ok1 := intKind(from)
	tk, ok2 := intKind(to)
	if !ok1 || !ok2 || fk.width != tk.width || fk.width <= 0 {
		fail(at, "a pointer to %s is read at type %s", from, to)
	}
	if fk.signed == tk.signed {
		return v
	}
	return fmt.Sprintf("(%s2%s %d %s)", sgn(fk), sgn(tk), tk.width, v)
}

// methodArgs: the arguments of a call of the translated method mk (the width of a generic receiver first)
func (g *gen) methodArgs(mk string, f *ast.SelectorExpr, x *ast.CallExpr, pre *[]string) ([]string, []outStore) {
	fd := funcs[mk]
	// the receiver type the method is selected on: for a promoted method, the embedded field's type
	recvT := info.Types[f.X].Type
	if sel, ok := info.Selections[f]; ok {
		rt := sel.Recv()
		for _, idx := range sel.Index()[:len(sel.Index())-1] {
			if p, ok := rt.(*types.Pointer); ok {
				rt = p.Elem()
			}
			rt = rt.Underlying().(*types.Struct).Field(idx).Type()
		}
		recvT = rt
	}
	var pnames []string
	for _, fl := range fd.Type.Params.List {
		for _, nm := range fl.Names {
			pnames = append(pnames, nm.Name)
		}
	}
	outSet := map[string]bool{}
	for _, o := range calleeOuts[mk] {
		outSet[o] = true
	}
	var args []string
	outsBy := map[string]outStore{}
	for i, a := range x.Args {
		if place, ok := addrArgOf(a); ok && i < len(pnames) {
			ct := ptrTypeOf(fd, pnames[i], 0)
			if ct == nil {
				args = append(args, "tt")
				continue
			}
			ct = instType(ct, recvT)
			pt := info.Types[place].Type
			args = append(args, reinterpret(g.expr(place, pre), pt, ct, a))
			if outSet[pnames[i]] {
				place, pt, ct := place, pt, ct
				outsBy[pnames[i]] = outStore{place: place, back: func(v string) string { return reinterpret(v, ct, pt, place) }}
			}
			continue
		}
		args = append(args, g.expr(a, pre))
	}
	var outs []outStore
	for _, o := range calleeOuts[mk] {
		st, ok := outsBy[o]
		if !ok {
			fail(x, "the callee writes through %s, which is not given as unsafe.Pointer(&place)", o)
		}
		outs = append(outs, st)
	}
	if _, isGeneric := fd.Recv.List[0].Type.(*ast.IndexExpr); isGeneric {
		w := "w"
		rt := recvT
		if p, ok := rt.(*types.Pointer); ok {
			rt = p.Elem()
		}
		if n, ok := rt.(*types.Named); ok && n.TypeArgs() != nil && n.TypeArgs().Len() == 1 {
			if _, isParam := n.TypeArgs().At(0).(*types.TypeParam); !isParam {
				k, ok := intKind(n.TypeArgs().At(0))
				if !ok {
					fail(x, "type argument %s", n.TypeArgs().At(0))
				}
				w = wd(k)
			}
		}
		args = append([]string{w}, args...)
	}
	return args, outs
}

func wd(k ikind) string {
	if k.width < 0 {
		return "w"
	}
	return fmt.Sprintf("%d", k.width)
}

func sgn(k ikind) string {
	if k.signed {
		return "s"
	}
	return "u"
}

// ---- statements ----

// ret builds the function's return value from a return statement
// retval: the value a return hands back - the (threaded) receiver first, then the results
func (g *gen) retval(vals []string) string {
	var front []string
	if g.recv != "" && !g.recvRO {
		front = append(front, sane(g.recv))
	}
	for _, p := range g.ptrsOut {
		front = append(front, sane(p))
	}
	vals = append(front, vals...)
	if len(vals) == 0 {
		return "tt"
	}
	return tuple(vals)
}

func (g *gen) ret(r *ast.ReturnStmt, wrap func(string) string) string {
	var pre []string
	res := r.Results
	if len(res) == 0 {
		// a bare return: named results (or none)
		var vals []string
		if g.fn.Type.Results != nil {
			for _, f := range g.fn.Type.Results.List {
				for _, n := range f.Names {
					if !isError(info.Defs[n].Type()) {
						vals = append(vals, sane(n.Name))
					}
				}
			}
		}
		return wrap(g.retval(vals))
	}
	if len(res) == 1 {
		if c, ok := res[0].(*ast.CallExpr); ok && len(c.Args) == 3 {
			if sel, ok := c.Fun.(*ast.SelectorExpr); ok && sel.Sel.Name == "Read" && isCodecItf(info.Types[sel.X].Type) {
				if st, ok := c.Args[1].(*ast.StarExpr); ok {
					if id, ok := st.X.(*ast.Ident); ok {
						if base, ok := g.aliases[id.Name]; ok && len(g.ptrsOut) == 1 && g.ptrsOut[0] == base && (g.recv == "" || g.recvRO) {
							// return c.Read(data, *t, wt) with t the slot: the codec reads into what the slot points to
							usedMem = true
							recvE := g.expr(sel.X, &pre)
							dataArg := g.expr(c.Args[0], &pre)
							wtArg := g.expr(c.Args[2], &pre)
							cd, pv0, rr, pv, n := g.fresh("cd"), g.fresh("pt"), g.fresh("rd"), g.fresh("pv"), g.fresh("n")
							pre = append(pre, fmt.Sprintf("do %s <- go_itf \"%s.%s\" (go_load_opt %s);", pv0, g.fn.Name.Name, pv0, sane(base)))
							pre = append(pre, fmt.Sprintf("do %s <- go_itf \"%s.%s\" %s;", cd, g.fn.Name.Name, cd, recvE))
							pre = append(pre, fmt.Sprintf("do %s <- gc_Read %s fuel %s %s %s;", rr, cd, dataArg, pv0, wtArg))
							return strings.Join(pre, " ") + fmt.Sprintf(" let '(%s, %s) := %s in let %s := go_store_opt %s %s in ", pv, n, rr, sane(base), sane(base), pv) + wrap(g.retval([]string{n}))
						}
					}
				}
			}
		}
	}
	if len(res) == 1 && len(g.ptrsOut) == 1 && (g.recv == "" || g.recvRO) {
		if c, ok := res[0].(*ast.CallExpr); ok {
			if sel, ok := c.Fun.(*ast.SelectorExpr); ok {
				if mk := methodKey(sel); mk != "" && len(calleeOuts[mk]) == 1 && !recvWritten[mk] {
					// return c.m(data, ptr): the callee writes through the same pointer and hands it back in front of its results
					fd := funcs[mk]
					var pnames []string
					for _, fl := range fd.Type.Params.List {
						for _, nm := range fl.Names {
							pnames = append(pnames, nm.Name)
						}
					}
					okFwd := false
					var args []string
					if usesRecv[mk] {
						args = append(args, g.expr(sel.X, &pre))
					}
					for i, a := range c.Args {
						if id, isId := a.(*ast.Ident); isId && i < len(pnames) && pnames[i] == calleeOuts[mk][0] && id.Name == g.ptrsOut[0] {
							okFwd = true
						}
						args = append(args, g.expr(a, &pre))
					}
					if okFwd {
						t := g.fresh("r")
						return strings.Join(pre, " ") + fmt.Sprintf(" do %s <- %s fuel %s; %s", t, coqName(fd), strings.Join(args, " "), wrap(t))
					}
				}
			}
		}
	}
	if len(res) == 1 && (g.recv == "" || g.recvRO) && len(g.ptrsOut) == 0 {
		if c, ok := res[0].(*ast.CallExpr); ok {
			if tv := info.Types[c]; tv.Type != nil {
				if _, isTuple := tv.Type.(*types.Tuple); isTuple {
					// return f(x) forwarding several results
					v := g.expr(c, &pre)
					return strings.Join(pre, " ") + " " + wrap(v)
				}
			}
		}
	}
	if g.haserr {
		last := res[len(res)-1]
		if id, ok := last.(*ast.Ident); ok && id.Name == "nil" {
			var vals []string
			for _, e := range res[:len(res)-1] {
				vals = append(vals, g.expr(e, &pre))
			}
			return strings.Join(pre, " ") + " " + wrap(g.retval(vals))
		}
		// a non-nil error: the other results are not looked at
		return "Err"
	}
	var vals []string
	for _, e := range res {
		vals = append(vals, g.expr(e, &pre))
	}
	return strings.Join(pre, " ") + " " + wrap(g.retval(vals))
}

func tuple(v []string) string {
	if len(v) == 1 {
		return v[0]
	}
	return "(" + strings.Join(v, ", ") + ")"
}

// assigned collects the variables a statement list assigns (not those it declares);
// a store through the receiver or through a place counts as an assignment of the receiver
func (g *gen) assigned(stmts []ast.Stmt, out map[string]bool) {
	root := func(e ast.Expr) {
		for {
			switch x := e.(type) {
			case *ast.SelectorExpr:
				e = x.X
				continue
			case *ast.IndexExpr:
				e = x.X
				continue
			case *ast.StarExpr:
				e = x.X
				continue
			case *ast.Ident:
				if x.Name == "_" {
					return
				}
				obj := info.Uses[x]
				if obj == nil {
					obj = info.Defs[x]
				}
				if obj != nil && g.scopeLo <= obj.Pos() && obj.Pos() < g.scopeHi {
					return // declared inside the loop body: a fresh variable in every iteration
				}
				if base, isAlias := g.aliases[x.Name]; isAlias {
					out[base] = true
					return
				}
				if _, isPlace := g.places[x.Name]; isPlace || (g.recv != "" && x.Name == g.recv) {
					out[g.recv] = true
				} else {
					out[x.Name] = true
				}
			}
			return
		}
	}
	for _, s := range stmts {
		ast.Inspect(s, func(n ast.Node) bool {
			switch a := n.(type) {
			case *ast.AssignStmt:
				for _, l := range a.Lhs {
					if id, ok := l.(*ast.Ident); ok {
						if a.Tok == token.DEFINE && info.Defs[id] != nil {
							continue
						}
					}
					root(l)
				}
			case *ast.IncDecStmt:
				root(a.X)
			case *ast.CallExpr:
				if sel, ok := a.Fun.(*ast.SelectorExpr); ok && sel.Sel.Name == "Read" && isCodecItf(info.Types[sel.X].Type) && len(a.Args) == 3 {
					if base, _, ok := memBaseOf(a.Args[1]); ok {
						out[base] = true
					}
					if b, _, ok := elemAddrOf(a.Args[1]); ok {
						root(b)
					}
					if id, ok := a.Args[1].(*ast.Ident); ok {
						if b, ok := g.placeBase[id.Name]; ok {
							root(b)
						}
					}
				}
				if f, ok := a.Fun.(*ast.Ident); ok && f.Name == "typedmemclr" && len(a.Args) == 2 {
					if id, ok := a.Args[1].(*ast.Ident); ok {
						if b, ok := g.placeBase[id.Name]; ok {
							root(b)
						}
					}
				}
				if sel, ok := a.Fun.(*ast.SelectorExpr); ok {
					if mk := methodKey(sel); mk != "" {
						if len(calleeOuts[mk]) > 0 {
							for _, arg := range a.Args {
								if place, ok := addrArgOf(arg); ok {
									root(place)
								}
							}
						}
						if id, ok := sel.X.(*ast.Ident); ok && recvWritten[mk] && (g.recv == "" || id.Name != g.recv) {
							root(id)
						}
					}
				}
			case *ast.ExprStmt:
				if c, ok := a.X.(*ast.CallExpr); ok {
					if sel, ok := c.Fun.(*ast.SelectorExpr); ok {
						if id, ok := sel.X.(*ast.Ident); ok && g.recv != "" && id.Name == g.recv && recvWritten[methodKey(sel)] {
							out[g.recv] = true
						}
					}
				}
			}
			return true
		})
	}
}

// block translates stmts followed by the continuation k (a Gallina term of the
// function's / loop's result type). retwrap turns a returned value into a term
// of that type.
func (g *gen) block(stmts []ast.Stmt, k string, retwrap func(string) string, ind string) string {
	if len(stmts) == 0 {
		return k
	}
	s := stmts[0]
	rest := func() string { return g.block(stmts[1:], k, retwrap, ind) }
	switch x := s.(type) {
	case *ast.ReturnStmt:
		return g.ret(x, retwrap)
	case *ast.AssignStmt:
		var pre []string
		if len(x.Lhs) == len(x.Rhs) {
			out := ""
			for i := range x.Lhs {
				if id, ok := x.Lhs[i].(*ast.Ident); ok && x.Tok == token.DEFINE {
					if _, isAlias := g.aliases[id.Name]; isAlias {
						if _, _, ok := ptrConvOf(x.Rhs[i]); ok {
							continue // another name for what the parameter addresses: nothing to compute
						}
					}
					if g.optVars[id.Name] {
						if name, t, ok := derefOf(x.Rhs[i]); ok && isUnsafePtr(t) && g.slotParam[name] {
							usedMem = true
							out += fmt.Sprintf("let %s := go_load_opt %s in\n%s", sane(id.Name), sane(name), ind)
							continue
						}
					}
				}
				if id, ok := x.Lhs[i].(*ast.Ident); ok && x.Tok == token.DEFINE {
					if eb, ei, isElem := elemAddrOf(x.Rhs[i]); isElem {
						ik, _ := intKind(info.Types[ei].Type)
						iv := g.expr(ei, &pre)
						if !ik.signed {
							iv = "(Z.of_N " + iv + ")"
						}
						name := sane(id.Name) + "_at"
						g.elemPlaces[info.Defs[id]] = elemPlace{base: eb, idx: name}
						out += strings.Join(pre, "\n"+ind) + nl(pre, ind) + fmt.Sprintf("let %s := %s in\n%s", name, iv, ind)
						pre = nil
						continue
					}
				}
				// s := &j.f[idx] : a place
				if u, ok := x.Rhs[i].(*ast.UnaryExpr); ok && u.Op == token.AND && x.Tok == token.DEFINE {
					out += g.definePlace(x.Lhs[i], u.X, &pre, ind)
					continue
				}
				var v string
				switch x.Tok {
				case token.ASSIGN, token.DEFINE:
					v = g.expr(x.Rhs[i], &pre)
				default:
					op := map[token.Token]token.Token{token.ADD_ASSIGN: token.ADD, token.SUB_ASSIGN: token.SUB, token.SHR_ASSIGN: token.SHR,
						token.SHL_ASSIGN: token.SHL, token.OR_ASSIGN: token.OR, token.AND_ASSIGN: token.AND, token.XOR_ASSIGN: token.XOR, token.MUL_ASSIGN: token.MUL}[x.Tok]
					if op == 0 {
						fail(x, "unsupported assignment operator %s", x.Tok)
					}
					be := &ast.BinaryExpr{X: x.Lhs[i], Op: op, Y: x.Rhs[i], OpPos: x.TokPos}
					info.Types[be] = info.Types[x.Lhs[i]]
					v = g.binary(be, &pre)
				}
				if id, ok := x.Lhs[i].(*ast.Ident); ok && id.Name == "_" {
					continue
				}
				// effects of the right-hand side first, then the store
				out += strings.Join(pre, "\n"+ind) + nl(pre, ind)
				pre = nil
				out += g.store(x.Lhs[i], v, ind)
			}
			return strings.Join(pre, "\n"+ind) + nl(pre, ind) + out + rest()
		}
		// several variables from one call
		if len(x.Rhs) != 1 {
			fail(x, "unsupported assignment")
		}
		call, ok := x.Rhs[0].(*ast.CallExpr)
		if !ok {
			fail(x, "unsupported assignment")
		}
		var names []string
		for _, l := range x.Lhs {
			id, ok := l.(*ast.Ident)
			if !ok {
				fail(x, "assignment to a non-variable")
			}
			if id.Name == "_" {
				names = append(names, "_")
			} else {
				names = append(names, sane(id.Name))
			}
		}
		if tup, ok := info.Types[call].Type.(*types.Tuple); ok && tup.Len() >= 2 && isError(tup.At(tup.Len()-1).Type()) {
			// v, err := f(...): f lives in the res monad, so its error ends this function with an error too.
			// That is what the Go code does only if it checks err at once and returns an error: required.
			errName := x.Lhs[len(x.Lhs)-1].(*ast.Ident).Name
			if errName == "_" || !checksErrAtOnce(stmts[1:], errName) {
				fail(x, "an error result that is not checked at once by  if err != nil { return ..., err }: outside the subset")
			}
			names = names[:len(names)-1]
			after := g.block(stmts[2:], k, retwrap, ind)
			if sel, ok := call.Fun.(*ast.SelectorExpr); ok && sel.Sel.Name == "Read" && isCodecItf(info.Types[sel.X].Type) && len(call.Args) == 3 {
				// n, err := c.Read(data, unsafe.Pointer(uintptr(p)+off), wt): reads the prior value of the
				// sub-object and stores what the codec hands back
				usedMem = true
				recvE := g.expr(sel.X, &pre)
				dataArg := g.expr(call.Args[0], &pre)
				var eb, ei ast.Expr
				isElem, placeIdx := false, ""
				if id, ok := call.Args[1].(*ast.Ident); ok {
					if pl, ok := g.elemPlaces[info.Uses[id]]; ok {
						eb, isElem, placeIdx = pl.base, true, pl.idx
					}
				}
				if !isElem {
					eb, ei, isElem = elemAddrOf(call.Args[1])
				}
				if isElem {
					// ... into element i of the array at eb (a field of a record this function may write)
					arr := g.expr(eb, &pre)
					iv := placeIdx
					if iv == "" {
						ik, _ := intKind(info.Types[ei].Type)
						iv = g.expr(ei, &pre)
						if !ik.signed {
							iv = "(Z.of_N " + iv + ")"
						}
					}
					wtArg := g.expr(call.Args[2], &pre)
					cd, el, rr, pv, na := g.fresh("cd"), g.fresh("el"), g.fresh("rd"), g.fresh("pv"), g.fresh("arr")
					pre = append(pre, fmt.Sprintf("do %s <- go_elem \"%s.%s\" %s %s;", el, g.fn.Name.Name, el, arr, iv))
					pre = append(pre, fmt.Sprintf("do %s <- go_itf \"%s.%s\" %s;", cd, g.fn.Name.Name, cd, recvE))
					pre = append(pre, fmt.Sprintf("do %s <- gc_Read %s fuel %s %s %s;", rr, cd, dataArg, el, wtArg))
					out := strings.Join(pre, "\n"+ind) + nl(pre, ind) + fmt.Sprintf("let '(%s, %s) := %s in\n%sdo %s <- go_set_elem \"%s.%s\" %s %s %s;\n%s", pv, names[0], rr, ind, na, g.fn.Name.Name, na, arr, iv, pv, ind)
					return out + g.store(eb, na, ind) + after
				}
				base, offE, isPlace := memBaseOf(call.Args[1])
				if !isPlace || !g.mem[base] {
					fail(x, "Read through the Codec interface into something other than a field of a struct address parameter")
				}
				off := g.expr(offE, &pre)
				wtArg := g.expr(call.Args[2], &pre)
				cd, rr, pv := g.fresh("cd"), g.fresh("rd"), g.fresh("pv")
				pre = append(pre, fmt.Sprintf("do %s <- go_itf \"%s.%s\" %s;", cd, g.fn.Name.Name, cd, recvE))
				pre = append(pre, fmt.Sprintf("do %s <- gc_Read %s fuel %s (go_field_get %s %s) %s;", rr, cd, dataArg, sane(base), off, wtArg))
				return strings.Join(pre, "\n"+ind) + nl(pre, ind) +
					fmt.Sprintf("let '(%s, %s) := %s in\n%slet %s := go_field_set %s %s %s in\n%s", pv, names[0], rr, ind, sane(base), sane(base), off, pv, ind) + after
			}
			if sel, ok := call.Fun.(*ast.SelectorExpr); ok {
				if mk := methodKey(sel); mk != "" && len(calleeOuts[mk]) > 0 {
					// n, err := C{}.Read(data, unsafe.Pointer(&place), wt): what the callee stores through the
					// pointer comes back in front of its results and is stored in the place
					if recvWritten[mk] || usesRecv[mk] {
						fail(x, "a method that uses its receiver and writes through a pointer argument")
					}
					args, outs := g.methodArgs(mk, sel, call, &pre)
					r := g.fresh("r")
					pre = append(pre, fmt.Sprintf("do %s <- %s fuel %s;", r, coqName(funcs[mk]), strings.Join(args, " ")))
					var pat []string
					var stores string
					for _, o := range outs {
						ov := g.fresh("pv")
						pat = append(pat, ov)
						stores += g.store(o.place, o.back(ov), ind)
					}
					pat = append(pat, names...)
					return strings.Join(pre, "\n"+ind) + nl(pre, ind) + fmt.Sprintf("let '%s := %s in\n%s", tuple(pat), r, ind) + stores + after
				}
			}
			v := g.expr(call, &pre)
			return strings.Join(pre, "\n"+ind) + nl(pre, ind) + fmt.Sprintf("let '%s := %s in\n%s", tuple(names), v, ind) + after
		}
		v := g.expr(call, &pre)
		return strings.Join(pre, "\n"+ind) + nl(pre, ind) + fmt.Sprintf("let '%s := %s in\n%s", tuple(names), v, ind) + rest()
	case *ast.IncDecStmt:
		k0, _ := intKind(info.Types[x.X].Type)
		op := "add"
		if x.Tok == token.DEC {
			op = "sub"
		}
		one := "1%N"
		if k0.signed {
			one = "1%Z"
		}
		var pre []string
		cur := g.expr(x.X, &pre)
		return strings.Join(pre, "\n"+ind) + nl(pre, ind) + g.store(x.X, fmt.Sprintf("(%s%s %s %s %s)", sgn(k0), op, wd(k0), cur, one), ind) + rest()
	case *ast.ExprStmt:
		// binary.LittleEndian.PutUint64(b[:], v): b becomes the little-endian bytes of v
		if c, ok := x.X.(*ast.CallExpr); ok {
			if f, ok := c.Fun.(*ast.SelectorExpr); ok {
				if inner, ok := f.X.(*ast.SelectorExpr); ok {
					if p, ok := inner.X.(*ast.Ident); ok && p.Name == "binary" && inner.Sel.Name == "LittleEndian" {
						width := map[string]int{"PutUint64": 8, "PutUint32": 4, "PutUint16": 2}[f.Sel.Name]
						sl, isSl := c.Args[0].(*ast.SliceExpr)
						if width == 0 || !isSl || sl.Low != nil || sl.High != nil {
							fail(x, "unsupported use of binary.LittleEndian")
						}
						arr, isArr := info.Types[sl.X].Type.Underlying().(*types.Array)
						id, isId := sl.X.(*ast.Ident)
						if !isArr || !isId || int(arr.Len()) != width {
							fail(x, "PutUint into something other than a whole array of its size")
						}
						var pre []string
						v := g.expr(c.Args[1], &pre)
						return strings.Join(pre, "\n"+ind) + nl(pre, ind) + fmt.Sprintf("let %s := (go_le_put %d %s) in\n%s", sane(id.Name), width, v, ind) + rest()
					}
				}
			}
		}
		if c, ok := x.X.(*ast.CallExpr); ok {
			if f, ok := c.Fun.(*ast.Ident); ok && f.Name == "typedmemclr" && len(c.Args) == 2 {
				// typedmemclr(unpackEFace(T).data, p): the element p names becomes the zero value (T travels as its zero value)
				var pre []string
				zero := ""
				if sel, ok := c.Args[0].(*ast.SelectorExpr); ok && sel.Sel.Name == "data" {
					if uc, ok := sel.X.(*ast.CallExpr); ok && len(uc.Args) == 1 {
						if uf, ok := uc.Fun.(*ast.Ident); ok && uf.Name == "unpackEFace" {
							zero = g.expr(uc.Args[0], &pre)
						}
					}
				}
				id, isId := c.Args[1].(*ast.Ident)
				if zero == "" || !isId {
					fail(s, "unsupported form of typedmemclr")
				}
				pl, ok := g.elemPlaces[info.Uses[id]]
				if !ok {
					fail(s, "typedmemclr of something other than an element")
				}
				usedMem = true
				arr := g.expr(pl.base, &pre)
				na := g.fresh("arr")
				return strings.Join(pre, "\n"+ind) + nl(pre, ind) + fmt.Sprintf("do %s <- go_set_elem \"%s.%s\" %s %s %s;\n%s", na, g.fn.Name.Name, na, arr, pl.idx, zero, ind) + g.store(pl.base, na, ind) + rest()
			}
			if f, ok := c.Fun.(*ast.Ident); ok && f.Name == "typedslicecopy" && len(c.Args) == 3 {
				// typedslicecopy(T, dst, src): the first min(len) elements of src over those of dst
				dst, isId := c.Args[1].(*ast.Ident)
				if !isId {
					fail(s, "typedslicecopy into something other than a variable")
				}
				var pre []string
				src := g.expr(c.Args[2], &pre)
				usedMem = true
				tn, isStruct := structName(info.Types[c.Args[1]].Type)
				if !isStruct {
					fail(s, "typedslicecopy of something other than slice headers")
				}
				d := sane(dst.Name)
				return strings.Join(pre, "\n"+ind) + nl(pre, ind) + fmt.Sprintf("let %s := set_%s_Data %s (go_copy_elems (%s_Data %s) (%s_Data %s) (Z.min (%s_Len %s) (%s_Len %s))) in\n%s",
					d, tn, d, tn, d, tn, src, tn, d, tn, src, ind) + rest()
			}
		}
		// a call of a method that changes a local struct variable: e.m(args)
		if c, ok := x.X.(*ast.CallExpr); ok {
			if sel, ok := c.Fun.(*ast.SelectorExpr); ok {
				if id, ok := sel.X.(*ast.Ident); ok && (g.recv == "" || id.Name != g.recv) {
					if mk := methodKey(sel); mk != "" && recvWritten[mk] {
						fd := funcs[mk]
						if fd.Type.Results != nil && len(fd.Type.Results.List) > 0 {
							fail(x, "result of a method call dropped")
						}
						var pre []string
						var args []string
						for _, a := range c.Args {
							args = append(args, g.expr(a, &pre))
						}
						return strings.Join(pre, "\n"+ind) + nl(pre, ind) + fmt.Sprintf("do %s <- %s fuel %s %s;\n%s", sane(id.Name), coqName(fd), sane(id.Name), strings.Join(args, " "), ind) + rest()
					}
				}
			}
		}
		// a call of a method that changes the receiver: j.m(args)
		if c, ok := x.X.(*ast.CallExpr); ok {
			if sel, ok := c.Fun.(*ast.SelectorExpr); ok {
				if id, ok := sel.X.(*ast.Ident); ok && g.recv != "" && id.Name == g.recv {
					if mk := methodKey(sel); mk != "" && recvWritten[mk] {
						fd := funcs[mk]
						if fd.Type.Results != nil && len(fd.Type.Results.List) > 0 {
							fail(x, "result of a method call dropped")
						}
						var pre []string
						var args []string
						for _, a := range c.Args {
							args = append(args, g.expr(a, &pre))
						}
						return strings.Join(pre, "\n"+ind) + nl(pre, ind) + fmt.Sprintf("do %s <- %s fuel %s %s;\n%s", sane(g.recv), coqName(fd), sane(g.recv), strings.Join(args, " "), ind) + rest()
					}
				}
			}
		}
		fail(s, "unsupported statement")
	case *ast.IfStmt:
		if x.Init != nil {
			// if v := e; cond { ... }: the variable lives in the if only; names are not re-used afterwards in the subset
			cp := *x
			cp.Init = nil
			return g.block(append([]ast.Stmt{x.Init, &cp}, stmts[1:]...), k, retwrap, ind)
		}
		var pre []string
		c := g.expr(x.Cond, &pre)
		after := rest()
		var els string
		if x.Else != nil {
			switch e := x.Else.(type) {
			case *ast.BlockStmt:
				els = g.block(e.List, after, retwrap, ind+"  ")
			case *ast.IfStmt:
				els = g.block([]ast.Stmt{e}, after, retwrap, ind+"  ")
			}
		} else {
			els = after
		}
		thn := g.block(x.Body.List, after, retwrap, ind+"  ")
		return strings.Join(pre, "\n"+ind) + nl(pre, ind) + fmt.Sprintf("if %s then\n%s  %s\n%selse\n%s  %s", c, ind, thn, ind, ind, els)
	case *ast.SwitchStmt:
		if x.Init != nil || x.Tag == nil {
			fail(x, "unsupported switch")
		}
		var pre []string
		tagv := g.expr(x.Tag, &pre)
		k0, ok := intKind(info.Types[x.Tag].Type)
		if !ok {
			fail(x, "switch on %s", info.Types[x.Tag].Type)
		}
		sc := "N"
		if k0.signed {
			sc = "Z"
		}
		after := rest()
		out := ""
		closing := ""
		var deflt []ast.Stmt
		for _, cc := range x.Body.List {
			cl := cc.(*ast.CaseClause)
			if cl.List == nil {
				deflt = cl.Body
				continue
			}
			var conds []string
			for _, ce := range cl.List {
				conds = append(conds, fmt.Sprintf("(%s.eqb %s %s)", sc, tagv, g.expr(ce, &pre)))
			}
			for _, st := range cl.Body {
				if b, ok := st.(*ast.BranchStmt); ok {
					fail(b, "break / fallthrough in a switch")
				}
			}
			out += fmt.Sprintf("if %s then\n%s  %s\n%selse ", strings.Join(conds, " || "), ind, g.block(cl.Body, after, retwrap, ind+"  "), ind)
		}
		out += g.block(deflt, after, retwrap, ind+"  ") + closing
		return strings.Join(pre, "\n"+ind) + nl(pre, ind) + out
	case *ast.ForStmt:
		return g.forLoop(x, stmts[1:], k, retwrap, ind)
	case *ast.RangeStmt:
		return g.rangeLoop(x, stmts[1:], k, retwrap, ind)
	case *ast.EmptyStmt:
		return rest()
	case *ast.BranchStmt:
		if x.Tok == token.CONTINUE && x.Label == nil && len(g.conts) > 0 {
			return g.conts[len(g.conts)-1]
		}
		fail(s, "break / goto / labelled continue")
	case *ast.DeclStmt:
		gd, ok := x.Decl.(*ast.GenDecl)
		if !ok || gd.Tok != token.VAR {
			fail(s, "unsupported declaration")
		}
		out := ""
		for _, sp := range gd.Specs {
			vs := sp.(*ast.ValueSpec)
			if len(vs.Values) != 0 {
				fail(s, "var with an initialiser")
			}
			for _, n := range vs.Names {
				out += fmt.Sprintf("let %s := %s in\n%s", sane(n.Name), zeroOf(info.Defs[n].Type(), s), ind)
			}
		}
		return out + rest()
	}
	fail(s, "unsupported statement %T", s)
	return ""
}

// store: the bindings that assign v to the place lhs denotes
func (g *gen) store(lhs ast.Expr, v string, ind string) string {
	if name, _, ok := derefOf(lhs); ok {
		return fmt.Sprintf("let %s := %s in\n%s", sane(name), v, ind)
	}
	switch l := lhs.(type) {
	case *ast.StarExpr:
		if id, ok := l.X.(*ast.Ident); ok {
			if base, ok := g.aliases[id.Name]; ok && g.aliasT[id.Name] != "" {
				return fmt.Sprintf("let %s := %s in\n%s", sane(base), v, ind) // *h = nh: the whole record
			}
			if base, ok := g.aliases[id.Name]; ok {
				usedMem = true
				return fmt.Sprintf("let %s := go_store_opt %s %s in\n%s", sane(base), sane(base), v, ind)
			}
		}
	case *ast.Ident:
		return fmt.Sprintf("let %s := %s in\n%s", sane(l.Name), v, ind)
	case *ast.SelectorExpr:
		id, ok := l.X.(*ast.Ident)
		if !ok {
			break
		}
		if g.recv != "" && id.Name == g.recv {
			return fmt.Sprintf("let %s := set_%s_%s %s %s in\n%s", sane(g.recv), g.recvT, l.Sel.Name, sane(g.recv), v, ind)
		}
		if base, ok := g.aliases[id.Name]; ok && g.aliasT[id.Name] != "" {
			return fmt.Sprintf("let %s := set_%s_%s %s %s in\n%s", sane(base), g.aliasT[id.Name], l.Sel.Name, sane(base), v, ind)
		}
		if n, ok := structName(info.Types[l.X].Type); ok {
			if _, isPlace := g.places[id.Name]; !isPlace {
				return fmt.Sprintf("let %s := set_%s_%s %s %s in\n%s", sane(id.Name), n, l.Sel.Name, sane(id.Name), v, ind)
			}
		}
		if pl, ok := g.places[id.Name]; ok {
			c, n := g.fresh("cur"), g.fresh("upd")
			return fmt.Sprintf("do %s <- go_nth \"%s.%s\" %s %s;\n%sdo %s <- go_set_nth \"%s.%s\" %s %s (set_%s_%s %s %s);\n%s%s\n%s",
				c, g.fn.Name.Name, c, pl.cont, pl.idx, ind, n, g.fn.Name.Name, n, pl.cont, pl.idx, pl.elemT, l.Sel.Name, c, v, ind, pl.setCont(n), ind)
		}
	case *ast.IndexExpr:
		sel, ok := l.X.(*ast.SelectorExpr)
		if !ok {
			break
		}
		id, ok := sel.X.(*ast.Ident)
		if !ok || g.recv == "" || id.Name != g.recv {
			break
		}
		var pre []string
		k, _ := intKind(info.Types[l.Index].Type)
		idx := g.expr(l.Index, &pre)
		if !k.signed {
			idx = "(Z.of_N " + idx + ")"
		}
		n := g.fresh("upd")
		return strings.Join(pre, "\n"+ind) + nl(pre, ind) + fmt.Sprintf("do %s <- go_set_nth \"%s.%s\" (%s_%s %s) %s %s;\n%slet %s := set_%s_%s %s %s in\n%s",
			n, g.fn.Name.Name, n, g.recvT, sel.Sel.Name, sane(g.recv), idx, v, ind, sane(g.recv), g.recvT, sel.Sel.Name, sane(g.recv), n, ind)
	}
	fail(lhs, "unsupported assignment target")
	return ""
}

// definePlace: s := &j.f[idx]
func (g *gen) definePlace(lhs ast.Expr, target ast.Expr, pre *[]string, ind string) string {
	id, ok := lhs.(*ast.Ident)
	ix, ok2 := target.(*ast.IndexExpr)
	if !ok || !ok2 {
		fail(lhs, "unsupported use of &")
	}
	sel, ok := ix.X.(*ast.SelectorExpr)
	if !ok {
		fail(lhs, "unsupported use of &")
	}
	rid, ok := sel.X.(*ast.Ident)
	if !ok || g.recv == "" || rid.Name != g.recv {
		fail(lhs, "unsupported use of &")
	}
	elem := info.Types[ix].Type
	en, ok := structName(elem)
	if !ok {
		fail(lhs, "pointer to something other than a struct element")
	}
	k, _ := intKind(info.Types[ix.Index].Type)
	idx := g.expr(ix.Index, pre)
	if !k.signed {
		idx = "(Z.of_N " + idx + ")"
	}
	iv := sane(id.Name) + "_idx"
	field := sel.Sel.Name
	recv, recvT := sane(g.recv), g.recvT
	if g.places == nil {
		g.places = map[string]place{}
	}
	g.places[id.Name] = place{
		cont:    fmt.Sprintf("(%s_%s %s)", recvT, field, recv),
		setCont: func(n string) string { return fmt.Sprintf("let %s := set_%s_%s %s %s in", recv, recvT, field, recv, n) },
		idx:     iv,
		elemT:   en,
	}
	chk := g.fresh("chk")
	hoisted := strings.Join(*pre, "\n"+ind) + nl(*pre, ind)
	*pre = nil
	// taking the address of an element panics when the index is out of range
	return hoisted + fmt.Sprintf("let %s := %s in\n%sdo %s <- go_nth \"%s.%s\" (%s_%s %s) %s;\n%s", iv, idx, ind, chk, g.fn.Name.Name, chk, recvT, field, recv, iv, ind)
}

func nl(pre []string, ind string) string {
	if len(pre) == 0 {
		return ""
	}
	return "\n" + ind
}

func endsInReturn(l []ast.Stmt) bool {
	if len(l) == 0 {
		return false
	}
	_, ok := l[len(l)-1].(*ast.ReturnStmt)
	return ok
}

func (g *gen) retType() string {
	var ts []string
	if g.recv != "" && !g.recvRO {
		ts = append(ts, g.recvT)
	}
	for _, p := range g.ptrsOut {
		if g.mem[p] {
			ts = append(ts, "gval")
			continue
		}
		ts = append(ts, coqType(g.ptrs[p], g.fn))
	}
	ts = append(ts, g.rtypes...)
	if len(ts) == 0 {
		return "unit"
	}
	if len(ts) == 1 {
		return ts[0]
	}
	return "(" + strings.Join(ts, " * ") + ")"
}

// varsOf: the loop-carried variables, in a fixed order, with their Coq types
func (g *gen) carried(body []ast.Stmt, post ast.Stmt, declaredInLoop map[string]bool) (names, tys []string) {
	as := map[string]bool{}
	if len(body) > 0 {
		g.scopeLo, g.scopeHi = body[0].Pos(), body[len(body)-1].End()
	}
	defer func() { g.scopeLo, g.scopeHi = 0, 0 }()
	g.assigned(body, as)
	if post != nil {
		g.assigned([]ast.Stmt{post}, as)
	}
	for n := range as {
		if !declaredInLoop[n] {
			names = append(names, n)
		}
	}
	sort.Strings(names)
	for _, n := range names {
		tys = append(tys, g.varType(n, body, post))
	}
	return
}

// varType finds the Coq type of a variable of the current function by name
func (g *gen) varType(name string, body []ast.Stmt, post ast.Stmt) string {
	if t, ok := g.ptrs[name]; ok && !g.mem[name] {
		// an unsafe.Pointer parameter: the value it addresses travels, at the type it is used at
		sig := info.Defs[g.fn.Name].Type().(*types.Signature)
		for i := 0; i < sig.Params().Len(); i++ {
			if sig.Params().At(i).Name() == name && isUnsafePtr(sig.Params().At(i).Type()) {
				return coqType(t, g.fn)
			}
		}
	}
	var found types.Type
	ast.Inspect(g.fn, func(n ast.Node) bool {
		if id, ok := n.(*ast.Ident); ok && id.Name == name {
			if o := info.Defs[id]; o != nil {
				found = o.Type()
			} else if o := info.Uses[id]; o != nil && found == nil {
				found = o.Type()
			}
		}
		return true
	})
	if found == nil {
		fail(g.fn, "no type for variable %s", name)
	}
	return coqType(found, g.fn)
}

func (g *gen) forLoop(x *ast.ForStmt, after []ast.Stmt, k string, retwrap func(string) string, ind string) string {
	if !g.mon {
		fail(x, "loop in a function that is not monadic")
	}
	g.loopN++
	loop := fmt.Sprintf("loop%d", g.loopN)
	inLoop := map[string]bool{}
	initLet := ""
	var loopVar, loopVarTy string
	if x.Init != nil {
		a, ok := x.Init.(*ast.AssignStmt)
		if !ok || a.Tok != token.DEFINE || len(a.Lhs) != 1 {
			fail(x, "unsupported loop initialiser")
		}
		var pre []string
		id := a.Lhs[0].(*ast.Ident)
		loopVar = sane(id.Name)
		loopVarTy = coqType(info.Defs[id].Type(), x)
		initLet = fmt.Sprintf("let %s := %s in\n%s", loopVar, g.expr(a.Rhs[0], &pre), ind)
		if len(pre) > 0 {
			fail(x, "effects in a loop initialiser")
		}
	}
	names, tys := g.carried(x.Body.List, x.Post, inLoop)
	if loopVar != "" {
		// the loop variable is carried too (the post statement assigns it)
		found := false
		for _, n := range names {
			if sane(n) == loopVar {
				found = true
			}
		}
		if !found {
			names = append(names, loopVar)
			tys = append(tys, loopVarTy)
		}
	}
	var params, args, sargs []string
	for i, n := range names {
		params = append(params, fmt.Sprintf("(%s : %s)", sane(n), tys[i]))
		args = append(args, sane(n))
		sargs = append(sargs, sane(n))
	}
	state := tuple(sargs)
	stateTy := "(" + strings.Join(tys, " * ") + ")"
	if len(tys) == 1 {
		stateTy = tys[0]
	}
	if len(tys) == 0 {
		stateTy = "unit"
		state = "tt"
	}
	lret := func(v string) string { return "Ok (LRet " + v + ")" }
	// the end of the body: the post statement, then the next iteration
	cont := fmt.Sprintf("%s fuel' %s", loop, strings.Join(args, " "))
	if x.Post != nil {
		cont = g.block([]ast.Stmt{x.Post}, cont, lret, ind+"      ")
	}
	g.conts = append(g.conts, cont)
	body := g.block(x.Body.List, cont, lret, ind+"      ")
	g.conts = g.conts[:len(g.conts)-1]
	cond := "true"
	var pre []string
	if x.Cond != nil {
		cond = g.expr(x.Cond, &pre)
		if len(pre) > 0 {
			fail(x, "effects in a loop condition")
		}
	}
	out := initLet
	out += fmt.Sprintf("do lr <- (fix %s (fuel' : nat) %s {struct fuel'} : res (lout %s %s) :=\n", loop, strings.Join(params, " "), g.retType(), stateTy)
	out += fmt.Sprintf("%s    match fuel' with\n%s    | O => Hang \"%s.%s\"\n%s    | S fuel' =>\n", ind, ind, g.fn.Name.Name, loop, ind)
	out += fmt.Sprintf("%s      if %s then\n%s      %s\n%s      else Ok (LDone %s)\n%s    end) fuel %s;\n", ind, cond, ind, body, ind, state, ind, strings.Join(args, " "))
	out += fmt.Sprintf("%smatch lr with\n%s| LRet v => %s\n%s| LDone %s =>\n%s  %s\n%send", ind, ind, retwrap("v"), ind, patt(sargs), ind, g.block(after, k, retwrap, ind+"  "), ind)
	return out
}

func patt(v []string) string {
	if len(v) == 0 {
		return "_"
	}
	return tuple(v)
}

func (g *gen) rangeLoop(x *ast.RangeStmt, after []ast.Stmt, k string, retwrap func(string) string, ind string) string {
	if !g.mon {
		fail(x, "loop in a function that is not monadic")
	}
	restTy := "bytes"
	if !isBytes(info.Types[x.X].Type) {
		sl, ok := info.Types[x.X].Type.Underlying().(*types.Slice)
		if !ok {
			fail(x, "range over something other than a slice")
		}
		restTy = "(list " + coqType(sl.Elem(), x) + ")"
	}
	if x.Tok != token.DEFINE {
		fail(x, "range with = ")
	}
	g.loopN++
	loop := fmt.Sprintf("loop%d", g.loopN)
	iName, vName := "_i", "_v"
	if id, ok := x.Key.(*ast.Ident); ok && id.Name != "_" {
		iName = sane(id.Name)
	}
	if id, ok := x.Value.(*ast.Ident); ok && id.Name != "_" {
		vName = sane(id.Name)
	}
	names, tys := g.carried(x.Body.List, nil, map[string]bool{iName: true, vName: true})
	var params, args []string
	for i, n := range names {
		params = append(params, fmt.Sprintf("(%s : %s)", sane(n), tys[i]))
		args = append(args, sane(n))
	}
	state := tuple(args)
	stateTy := "(" + strings.Join(tys, " * ") + ")"
	if len(tys) == 1 {
		stateTy = tys[0]
	}
	if len(tys) == 0 {
		stateTy = "unit"
		state = "tt"
	}
	lret := func(v string) string { return "Ok (LRet " + v + ")" }
	var pre []string
	src := g.expr(x.X, &pre)
	cont := fmt.Sprintf("%s (sadd 64 %s 1%%Z) rest' %s", loop, iName, strings.Join(args, " "))
	g.conts = append(g.conts, cont)
	body := g.block(x.Body.List, cont, lret, ind+"      ")
	g.conts = g.conts[:len(g.conts)-1]
	out := strings.Join(pre, "\n"+ind) + nl(pre, ind)
	out += fmt.Sprintf("do lr <- (fix %s (%s : Z) (rest : %s) %s {struct rest} : res (lout %s %s) :=\n", loop, iName, restTy, strings.Join(params, " "), g.retType(), stateTy)
	out += fmt.Sprintf("%s    match rest with\n%s    | [] => Ok (LDone %s)\n%s    | %s :: rest' =>\n%s      %s\n%s    end) 0%%Z %s %s;\n", ind, ind, state, ind, vName, ind, body, ind, src, strings.Join(args, " "))
	out += fmt.Sprintf("%smatch lr with\n%s| LRet v => %s\n%s| LDone %s =>\n%s  %s\n%send", ind, ind, retwrap("v"), ind, patt(args), ind, g.block(after, k, retwrap, ind+"  "), ind)
	return out
}

// ---- functions ----

// ptrTypeOf: the type an unsafe.Pointer parameter of a translated function is used at
// (directly, or by being handed on to another translated method), nil if it is not used
func ptrTypeOf(fd *ast.FuncDecl, param string, depth int) types.Type {
	if depth > 8 {
		return nil
	}
	var found types.Type
	ast.Inspect(fd.Body, func(n ast.Node) bool {
		if e, ok := n.(ast.Expr); ok {
			if name, t, ok := derefOf(e); ok && name == param {
				found = t
			} else if _, isCall := e.(*ast.CallExpr); isCall {
				if name, t, ok := ptrConvOf(e); ok && name == param {
					found = t
				}
			}
		}
		return true
	})
	if found != nil {
		return found
	}
	for name, t := range forwardedPtrTypesDepth(fd, depth+1) {
		if name == param {
			return t
		}
	}
	return nil
}

func forwardedPtrTypes(fd *ast.FuncDecl) map[string]types.Type { return forwardedPtrTypesDepth(fd, 0) }

func forwardedPtrTypesDepth(fd *ast.FuncDecl, depth int) map[string]types.Type {
	out := map[string]types.Type{}
	ast.Inspect(fd.Body, func(n ast.Node) bool {
		c, ok := n.(*ast.CallExpr)
		if !ok {
			return true
		}
		sel, ok := c.Fun.(*ast.SelectorExpr)
		if !ok {
			return true
		}
		mk := methodKey(sel)
		if mk == "" {
			return true
		}
		callee := funcs[mk]
		var pnames []string
		for _, f := range callee.Type.Params.List {
			for _, nm := range f.Names {
				pnames = append(pnames, nm.Name)
			}
		}
		for i, a := range c.Args {
			id, ok := a.(*ast.Ident)
			if !ok || i >= len(pnames) {
				continue
			}
			if o := info.Uses[id]; o == nil || o.Type().String() != "unsafe.Pointer" {
				continue
			}
			if t := ptrTypeOf(callee, pnames[i], depth); t != nil {
				out[id.Name] = t
			}
		}
		return true
	})
	return out
}

// onlyCallsThrough: every use of the (value) receiver is the receiver of a method call
func onlyCallsThrough(fd *ast.FuncDecl) bool {
	rn := fd.Recv.List[0].Names[0]
	ok := true
	callRecv := map[*ast.Ident]bool{}
	ast.Inspect(fd.Body, func(n ast.Node) bool {
		if c, isCall := n.(*ast.CallExpr); isCall {
			if sel, isSel := c.Fun.(*ast.SelectorExpr); isSel {
				e := sel.X
				for {
					if inner, ok := e.(*ast.SelectorExpr); ok {
						if _, isItf := info.Types[inner].Type.Underlying().(*types.Interface); isItf {
							break // a field holding a codec: that is a use of the receiver's state
						}
						e = inner.X // through embedded codecs: c.FlatIntCodec.Read
						continue
					}
					break
				}
				if id, isId := e.(*ast.Ident); isId {
					callRecv[id] = true
				}
			}
		}
		return true
	})
	ast.Inspect(fd.Body, func(n ast.Node) bool {
		if id, isId := n.(*ast.Ident); isId && info.Uses[id] != nil && info.Uses[id] == info.Defs[rn] && !callRecv[id] {
			ok = false
		}
		return true
	})
	return ok
}

func hasLoopOrEffect(fd *ast.FuncDecl) bool {
	found := false
	ast.Inspect(fd.Body, func(n ast.Node) bool {
		switch x := n.(type) {
		case *ast.ForStmt, *ast.RangeStmt, *ast.SliceExpr:
			found = true
		case *ast.IndexExpr:
			found = true
		case *ast.CallExpr:
			if id, ok := x.Fun.(*ast.Ident); ok && monadic[id.Name] {
				found = true
			}
			if sel, ok := x.Fun.(*ast.SelectorExpr); ok {
				if isCodecItf(info.Types[sel.X].Type) {
					found = true // a nil interface panics
				}
				if p, ok := sel.X.(*ast.Ident); ok && p.Name == "plenccore" && coreMonadic[sel.Sel.Name] {
					found = true
				}
				if mk := methodKey(sel); mk != "" && monadic[mk] {
					found = true
				}
			}
		}
		return true
	})
	return found
}

func (g *gen) function() string {
	fd := g.fn
	sig := info.Defs[fd.Name].Type().(*types.Signature)
	var params []string
	// unsafe.Pointer parameters: what is read / written through them
	g.ptrs = map[string]types.Type{}
	written := map[string]bool{}
	ast.Inspect(fd.Body, func(n ast.Node) bool {
		if e, ok := n.(ast.Expr); ok {
			name, t, ok := derefOf(e)
			if !ok {
				if _, isCall := e.(*ast.CallExpr); isCall {
					name, t, ok = ptrConvOf(e)
				}
			}
			if ok {
				if old, seen := g.ptrs[name]; seen && !types.Identical(old, t) {
					fail(e, "pointer %s is used at two types", name)
				}
				g.ptrs[name] = t
			}
		}
		if a, ok := n.(*ast.AssignStmt); ok {
			for _, l := range a.Lhs {
				if name, _, ok := derefOf(l); ok {
					written[name] = true
				}
			}
		}
		return true
	})
	for name, t := range forwardedPtrTypes(fd) {
		if _, seen := g.ptrs[name]; !seen {
			g.ptrs[name] = t
		}
	}
	g.aliases, g.optVars, g.slotParam, g.aliasT = map[string]string{}, map[string]bool{}, map[string]bool{}, map[string]string{}
	g.elemPlaces = map[types.Object]elemPlace{}
	g.placeBase = map[string]ast.Expr{}
	ast.Inspect(fd.Body, func(n ast.Node) bool {
		if a, ok := n.(*ast.AssignStmt); ok && a.Tok == token.DEFINE && len(a.Lhs) == 1 && len(a.Rhs) == 1 {
			if id, ok := a.Lhs[0].(*ast.Ident); ok {
				if eb, _, isElem := elemAddrOf(a.Rhs[0]); isElem {
					g.placeBase[id.Name] = eb
				}
			}
		}
		return true
	})
	ast.Inspect(fd.Body, func(n ast.Node) bool {
		a, ok := n.(*ast.AssignStmt)
		if !ok || a.Tok != token.DEFINE || len(a.Lhs) != 1 || len(a.Rhs) != 1 {
			return true
		}
		id, ok := a.Lhs[0].(*ast.Ident)
		if !ok {
			return true
		}
		if name, t, ok := derefOf(a.Rhs[0]); ok && isUnsafePtr(t) {
			if o := info.Uses[findIdent(a.Rhs[0], name)]; o != nil && isParamOf(fd, o) {
				g.slotParam[name] = true
				g.optVars[id.Name] = true
			}
		} else if name, t, ok := ptrConvOf(a.Rhs[0]); ok && isUnsafePtr(t) {
			if o := info.Uses[findIdent(a.Rhs[0], name)]; o != nil && isParamOf(fd, o) {
				g.slotParam[name] = true
				g.aliases[id.Name] = name
			}
		} else if name, t, ok := ptrConvOf(a.Rhs[0]); ok {
			// h := (*T)(ptr) for a struct T: h is another name for the record ptr addresses
			if sn, isStruct := structName(t); isStruct {
				if o := info.Uses[findIdent(a.Rhs[0], name)]; o != nil && isParamOf(fd, o) {
					g.aliases[id.Name] = name
					g.aliasT[id.Name] = sn
				}
			}
		}
		return true
	})
	ast.Inspect(fd.Body, func(n ast.Node) bool {
		switch x := n.(type) {
		case *ast.AssignStmt:
			for _, l := range x.Lhs {
				if st, ok := l.(*ast.StarExpr); ok {
					if id, ok := st.X.(*ast.Ident); ok {
						if base, ok := g.aliases[id.Name]; ok {
							written[base] = true
						}
					}
				}
				if sel, ok := l.(*ast.SelectorExpr); ok {
					if id, ok := sel.X.(*ast.Ident); ok {
						if base, ok := g.aliases[id.Name]; ok {
							written[base] = true
						}
					}
				}
			}
		case *ast.IncDecStmt:
			if sel, ok := x.X.(*ast.SelectorExpr); ok {
				if id, ok := sel.X.(*ast.Ident); ok {
					if base, ok := g.aliases[id.Name]; ok {
						written[base] = true
					}
				}
			}
		case *ast.CallExpr:
			markBase := func(b ast.Expr) {
				if bs, ok := b.(*ast.SelectorExpr); ok {
					if id, ok := bs.X.(*ast.Ident); ok {
						if base, ok := g.aliases[id.Name]; ok {
							written[base] = true
						}
					}
				}
			}
			if f, ok := x.Fun.(*ast.Ident); ok && f.Name == "typedmemclr" && len(x.Args) == 2 {
				if id, ok := x.Args[1].(*ast.Ident); ok {
					if b, ok := g.placeBase[id.Name]; ok {
						markBase(b)
					}
				}
			}
			if sel, ok := x.Fun.(*ast.SelectorExpr); ok && sel.Sel.Name == "Read" && isCodecItf(info.Types[sel.X].Type) && len(x.Args) == 3 {
				if id, ok := x.Args[1].(*ast.Ident); ok {
					if b, ok := g.placeBase[id.Name]; ok {
						markBase(b)
					}
				}
			}
			if sel, ok := x.Fun.(*ast.SelectorExpr); ok && sel.Sel.Name == "Read" && isCodecItf(info.Types[sel.X].Type) && len(x.Args) == 3 {
				if b, _, ok := elemAddrOf(x.Args[1]); ok {
					if bs, ok := b.(*ast.SelectorExpr); ok {
						if id, ok := bs.X.(*ast.Ident); ok {
							if base, ok := g.aliases[id.Name]; ok {
								written[base] = true
							}
						}
					}
				}
				if st, ok := x.Args[1].(*ast.StarExpr); ok {
					if id, ok := st.X.(*ast.Ident); ok {
						if base, ok := g.aliases[id.Name]; ok {
							written[base] = true // the pointee is part of the slot's value
						}
					}
				}
			}
		}
		return true
	})
	g.mem = memParams[fkey(fd)]
	ast.Inspect(fd.Body, func(n ast.Node) bool {
		// a Read through the Codec interface into a field of the struct at p writes that struct
		if c, ok := n.(*ast.CallExpr); ok && len(c.Args) == 3 {
			if sel, ok := c.Fun.(*ast.SelectorExpr); ok && sel.Sel.Name == "Read" && isCodecItf(info.Types[sel.X].Type) {
				if base, _, ok := memBaseOf(c.Args[1]); ok && g.mem[base] {
					written[base] = true
				}
			}
		}
		return true
	})
	if fd.Recv != nil {
		if _, isGeneric := fd.Recv.List[0].Type.(*ast.IndexExpr); isGeneric {
			g.generic = true
			params = append(params, "(w : N)")
		}
	}
	for i := 0; i < sig.Params().Len(); i++ {
		p := sig.Params().At(i)
		if p.Type().String() == "unsafe.Pointer" && g.mem[p.Name()] {
			usedMem = true
			params = append(params, fmt.Sprintf("(%s : gval)", sane(p.Name())))
			if written[p.Name()] {
				g.ptrsOut = append(g.ptrsOut, p.Name())
			}
			continue
		}
		if p.Type().String() == "unsafe.Pointer" {
			t, used := g.ptrs[p.Name()]
			if !used {
				params = append(params, fmt.Sprintf("(%s : unit)", sane(p.Name())))
				continue
			}
			params = append(params, fmt.Sprintf("(%s : %s)", sane(p.Name()), coqType(t, fd)))
			if written[p.Name()] {
				g.ptrsOut = append(g.ptrsOut, p.Name())
			}
			continue
		}
		if p.Name() == "" || p.Name() == "_" {
			params = append(params, fmt.Sprintf("(_ : %s)", coqType(p.Type(), fd)))
			continue
		}
		params = append(params, fmt.Sprintf("(%s : %s)", sane(p.Name()), coqType(p.Type(), fd)))
	}
	for i := 0; i < sig.Results().Len(); i++ {
		r := sig.Results().At(i)
		if isError(r.Type()) {
			if i != sig.Results().Len()-1 {
				fail(fd, "error result that is not last")
			}
			g.haserr = true
			continue
		}
		g.rtypes = append(g.rtypes, coqType(r.Type(), fd))
	}
	g.mon = monadic[fkey(fd)]
	if fd.Recv != nil && usesRecv[fkey(fd)] {
		g.recv = fd.Recv.List[0].Names[0].Name
		g.recvT = recvTypeName(fd)
		g.recvRO = !recvWritten[fkey(fd)]
		params = append([]string{fmt.Sprintf("(%s : %s)", sane(g.recv), g.recvT)}, params...)
	}
	calleeOuts[fkey(fd)] = append([]string{}, g.ptrsOut...)
	rt := g.retType()
	wrap := func(v string) string { return v }
	fuel := ""
	if g.mon {
		rt = "res " + rt
		wrap = func(v string) string { return "Ok " + v }
		fuel = "(fuel : nat) "
	}
	// named results start at their zero values
	pre := ""
	for i := 0; i < sig.Results().Len(); i++ {
		r := sig.Results().At(i)
		if r.Name() != "" && r.Name() != "_" && !isError(r.Type()) {
			pre += fmt.Sprintf("let %s := %s in\n  ", sane(r.Name()), zeroOf(r.Type(), fd))
		}
	}
	// falling off the end: only functions without results (the receiver is handed back)
	body := g.block(fd.Body.List, wrap(g.retval(nil)), wrap, "  ")
	return fmt.Sprintf("(* %s *)\nDefinition %s %s%s : %s :=\n  %s%s.\n", posOf(fd), coqName(fd), fuel, strings.Join(params, " "), rt, pre, body)
}

// repoImporter resolves the module's own packages from the repository's source
// and everything else from the standard library's source
type repoImporter struct {
	repo  string
	std   types.Importer
	cache map[string]*types.Package
}

func (ri *repoImporter) Import(path string) (*types.Package, error) {
	const mod = "github.com/philpearl/plenc"
	if path != mod && !strings.HasPrefix(path, mod+"/") {
		return ri.std.Import(path)
	}
	if p, ok := ri.cache[path]; ok {
		return p, nil
	}
	dir := filepath.Join(ri.repo, strings.TrimPrefix(strings.TrimPrefix(path, mod), "/"))
	pkgs, err := parser.ParseDir(fset, dir, func(fi os.FileInfo) bool { return !strings.HasSuffix(fi.Name(), "_test.go") }, 0)
	if err != nil {
		return nil, err
	}
	for _, ap := range pkgs {
		var files []*ast.File
		var names []string
		for n := range ap.Files {
			names = append(names, n)
		}
		sort.Strings(names)
		for _, n := range names {
			files = append(files, ap.Files[n])
		}
		conf := types.Config{Importer: ri}
		p, err := conf.Check(path, fset, files, nil)
		if err != nil {
			return nil, err
		}
		ri.cache[path] = p
		return p, nil
	}
	return nil, fmt.Errorf("no package in %s", dir)
}

// corePass: which functions plenccore has, and which of them the translation puts in the res monad
func corePass(repo string) {
	dir := filepath.Join(repo, "plenccore")
	pkgs, err := parser.ParseDir(fset, dir, func(fi os.FileInfo) bool { return !strings.HasSuffix(fi.Name(), "_test.go") }, 0)
	if err != nil {
		fail(nil, "%v", err)
	}
	decls := map[string]*ast.FuncDecl{}
	for _, ap := range pkgs {
		for _, f := range ap.Files {
			for _, d := range f.Decls {
				if fd, ok := d.(*ast.FuncDecl); ok && fd.Recv == nil && fd.Body != nil {
					decls[fd.Name.Name] = fd
					coreFuncs[fd.Name.Name] = true
				}
			}
		}
	}
	effect := func(fd *ast.FuncDecl) bool {
		found := false
		if fd.Type.Results != nil {
			for _, r := range fd.Type.Results.List {
				if id, ok := r.Type.(*ast.Ident); ok && id.Name == "error" {
					found = true
				}
			}
		}
		ast.Inspect(fd, func(n ast.Node) bool {
			switch x := n.(type) {
			case *ast.ForStmt, *ast.RangeStmt, *ast.SliceExpr, *ast.IndexExpr:
				found = true
			case *ast.CallExpr:
				if id, ok := x.Fun.(*ast.Ident); ok && coreMonadic[id.Name] {
					found = true
				}
			}
			return true
		})
		return found
	}
	for changed := true; changed; {
		changed = false
		for n, fd := range decls {
			if !coreMonadic[n] && effect(fd) {
				coreMonadic[n] = true
				changed = true
			}
		}
	}
}

func main() {
	// gotrans <repo> <out.v>                              : all of plenccore
	// gotrans <repo> <out.v> <pkgdir> <file.go> <f1,f2,..> : the named functions / methods of one file of another package
	// gotrans <repo> <out.v> <pkgdir> - <f1,f2,..> <Module>=<g1,g2,..> : ... calling g1, g2, .. in the generated module <Module>
	if len(os.Args) != 3 && len(os.Args) != 6 && len(os.Args) != 7 {
		fmt.Fprintln(os.Stderr, "usage: gotrans <repo> <out.v> [<pkgdir> <file.go|-> <func,func,...> [<Module>=<func,func,...>]]")
		os.Exit(2)
	}
	pkgdir, onlyFile := "plenccore", ""
	want := map[string]bool{}
	if len(os.Args) >= 6 {
		pkgdir, onlyFile = os.Args[3], os.Args[4]
		for _, f := range strings.Split(os.Args[5], ",") {
			want[f] = true
		}
	}
	if len(os.Args) == 7 {
		mod, list, ok := strings.Cut(os.Args[6], "=")
		if !ok {
			fail(nil, "bad extern argument %s", os.Args[6])
		}
		for _, f := range strings.Split(list, ",") {
			want[f] = true
			externMod[f] = mod
		}
	}
	dir := filepath.Join(os.Args[1], pkgdir)
	wholePkg := onlyFile == "-"
	if wholePkg {
		onlyFile = ""
	}
	pkgs, err := parser.ParseDir(fset, dir, func(fi os.FileInfo) bool {
		if onlyFile != "" {
			return fi.Name() == onlyFile
		}
		return !strings.HasSuffix(fi.Name(), "_test.go")
	}, parser.ParseComments)
	if err != nil {
		fail(nil, "%v", err)
	}
	var p *ast.Package
	for _, q := range pkgs {
		p = q
	}
	if p == nil {
		fail(nil, "no package found in %s", dir)
	}
	var files []*ast.File
	var names []string
	for n := range p.Files {
		names = append(names, n)
	}
	sort.Strings(names)
	for _, n := range names {
		files = append(files, p.Files[n])
	}
	var imp types.Importer = importer.ForCompiler(fset, "source", nil)
	if wholePkg {
		corePass(os.Args[1])
		imp = &repoImporter{repo: os.Args[1], std: imp, cache: map[string]*types.Package{}}
	}
	conf := types.Config{Importer: imp}
	pkg, err = conf.Check(p.Name, fset, files, info)
	if err != nil {
		fail(nil, "type check: %v", err)
	}
	for _, f := range files {
		for _, d := range f.Decls {
			if gd, ok := d.(*ast.GenDecl); ok && gd.Tok == token.VAR {
				for _, sp := range gd.Specs {
					if vs, ok := sp.(*ast.ValueSpec); ok && len(vs.Names) == 1 && len(vs.Values) == 1 {
						pkgVars[vs.Names[0].Name] = vs
					}
				}
			}
		}
	}
	var order []string
	selecting := len(want) > 0
	for _, f := range files {
		for _, d := range f.Decls {
			fd, ok := d.(*ast.FuncDecl)
			if !ok || fd.Body == nil {
				continue
			}
			key := ""
			if fd.Recv != nil {
				key = fkey(fd)
			} else {
				key = fd.Name.Name
			}
			if selecting {
				switch {
				case want[key]:
					delete(want, key)
				case want[fd.Name.Name]:
					delete(want, fd.Name.Name)
				default:
					continue
				}
			} else if fd.Recv != nil {
				continue
			}
			if fd.Recv != nil && len(fd.Recv.List[0].Names) > 0 {
				// a method that touches its receiver threads it through as a record
				for _, fld := range fd.Recv.List {
					for _, rn := range fld.Names {
						ast.Inspect(fd.Body, func(n ast.Node) bool {
							if id, ok := n.(*ast.Ident); ok && info.Uses[id] != nil && info.Uses[id] == info.Defs[rn] {
								// a value receiver that is only used to call other methods carries no state
								usesRecv[key] = true
							}
							return true
						})
					}
				}
				if usesRecv[key] {
					if _, isPtr := info.Defs[fd.Recv.List[0].Names[0]].Type().(*types.Pointer); !isPtr {
						if onlyCallsThrough(fd) {
							usesRecv[key] = false
						}
						// otherwise: a value receiver whose fields are read - a parameter (it cannot be written:
						// recvWritten is checked below)
					}
				}
				if usesRecv[key] {
					monadic[key] = true
				}
			}
			if _, dup := funcs[key]; dup {
				fail(fd, "two translated functions called %s", key)
			}
			funcs[key] = fd
			order = append(order, key)
		}
	}
	for f := range want {
		fail(nil, "function %s not found in %s/%s", f, pkgdir, onlyFile)
	}
	// a method that calls, on its own receiver, a method that reads its receiver needs the receiver too
	for changed := true; changed; {
		changed = false
		for _, n := range order {
			fd := funcs[n]
			if fd.Recv == nil || usesRecv[n] || len(fd.Recv.List[0].Names) == 0 {
				continue
			}
			rn := fd.Recv.List[0].Names[0]
			need := false
			ast.Inspect(fd.Body, func(x ast.Node) bool {
				if c, ok := x.(*ast.CallExpr); ok {
					if sel, ok := c.Fun.(*ast.SelectorExpr); ok {
						if id, ok := sel.X.(*ast.Ident); ok && info.Uses[id] != nil && info.Uses[id] == info.Defs[rn] {
							if mk := methodKey(sel); mk != "" && usesRecv[mk] {
								// only when the callee is a method of the same receiver type (not of an embedded, stateless one)
								if recvBase(funcs[mk]) == recvBase(fd) {
									need = true
								}
							}
						}
					}
				}
				return true
			})
			if need {
				usesRecv[n] = true
				changed = true
			}
		}
	}
	// which methods write their receiver, which unsafe.Pointer parameters address a struct in memory
	rootIsRecv := func(fd *ast.FuncDecl, e ast.Expr) bool {
		rn := fd.Recv.List[0].Names[0]
		for {
			switch x := e.(type) {
			case *ast.SelectorExpr:
				e = x.X
				continue
			case *ast.IndexExpr:
				e = x.X
				continue
			case *ast.SliceExpr:
				e = x.X
				continue
			case *ast.ParenExpr:
				e = x.X
				continue
			case *ast.Ident:
				return info.Uses[x] != nil && info.Uses[x] == info.Defs[rn]
			}
			return false
		}
	}
	for changed := true; changed; {
		changed = false
		for _, n := range order {
			fd := funcs[n]
			if fd.Recv == nil || !usesRecv[n] || recvWritten[n] {
				continue
			}
			w := false
			ast.Inspect(fd.Body, func(x ast.Node) bool {
				switch a := x.(type) {
				case *ast.AssignStmt:
					for _, l := range a.Lhs {
						if _, isId := l.(*ast.Ident); !isId && rootIsRecv(fd, l) {
							w = true
						}
					}
					for _, r := range a.Rhs {
						if u, ok := r.(*ast.UnaryExpr); ok && u.Op == token.AND && rootIsRecv(fd, u.X) {
							w = true // a pointer into the receiver
						}
					}
				case *ast.IncDecStmt:
					if rootIsRecv(fd, a.X) {
						w = true
					}
				case *ast.CallExpr:
					if sel, ok := a.Fun.(*ast.SelectorExpr); ok {
						if mk := methodKey(sel); mk != "" && recvWritten[mk] && rootIsRecv(fd, sel.X) {
							w = true
						}
					}
				}
				return true
			})
			if w {
				recvWritten[n] = true
				changed = true
			}
		}
	}
	for _, n := range order {
		if usesRecv[n] && !recvWritten[n] {
			monadic[n] = false // decided by what the body does, like any function
		}
		if usesRecv[n] && recvWritten[n] {
			if _, isPtr := info.Defs[funcs[n].Recv.List[0].Names[0]].Type().(*types.Pointer); !isPtr {
				fail(funcs[n], "a value receiver that is assigned to: outside the subset")
			}
		}
	}
	for changed := true; changed; {
		changed = false
		for _, n := range order {
			fd := funcs[n]
			sig := info.Defs[fd.Name].Type().(*types.Signature)
			for i := 0; i < sig.Params().Len(); i++ {
				p := sig.Params().At(i)
				if !isUnsafePtr(p.Type()) || memParams[n][p.Name()] {
					continue
				}
				is := false
				ast.Inspect(fd.Body, func(x ast.Node) bool {
					c, ok := x.(*ast.CallExpr)
					if !ok {
						return true
					}
					if id, ok := c.Fun.(*ast.Ident); ok && id.Name == "uintptr" && len(c.Args) == 1 {
						if a, ok := c.Args[0].(*ast.Ident); ok && info.Uses[a] == p {
							is = true
						}
					}
					if sel, ok := c.Fun.(*ast.SelectorExpr); ok {
						if mk := methodKey(sel); mk != "" {
							csig := info.Defs[funcs[mk].Name].Type().(*types.Signature)
							for j, a := range c.Args {
								if id, ok := a.(*ast.Ident); ok && info.Uses[id] == p && j < csig.Params().Len() && memParams[mk][csig.Params().At(j).Name()] {
									is = true
								}
							}
						}
					}
					return true
				})
				if is {
					if memParams[n] == nil {
						memParams[n] = map[string]bool{}
					}
					memParams[n][p.Name()] = true
					changed = true
				}
			}
		}
	}
	// monadic: loops, slicing, an error result, or a call of a monadic function (to a fixpoint)
	for _, n := range order {
		sig := info.Defs[funcs[n].Name].Type().(*types.Signature)
		for i := 0; i < sig.Results().Len(); i++ {
			if isError(sig.Results().At(i).Type()) {
				monadic[n] = true
			}
		}
	}
	for changed := true; changed; {
		changed = false
		for _, n := range order {
			if !monadic[n] && hasLoopOrEffect(funcs[n]) {
				monadic[n] = true
				changed = true
			}
		}
	}
	// definitions before uses
	done := map[string]bool{}
	var sorted []string
	var visit func(n string)
	visit = func(n string) {
		if done[n] {
			return
		}
		done[n] = true
		ast.Inspect(funcs[n], func(x ast.Node) bool {
			if c, ok := x.(*ast.CallExpr); ok {
				if id, ok := c.Fun.(*ast.Ident); ok {
					if _, ok := funcs[id.Name]; ok && id.Name != n {
						visit(id.Name)
					}
				}
				if sel, ok := c.Fun.(*ast.SelectorExpr); ok {
					if mk := methodKey(sel); mk != "" && mk != n {
						visit(mk)
					}
				}
			}
			return true
		})
		sorted = append(sorted, n)
	}
	for _, n := range order {
		visit(n)
	}
	var out strings.Builder
	out.WriteString("(* GENERATED by /verif/tools/gotrans from " + dir + " " + onlyFile + " - do not edit.\n   One definition per function of the package, translated statement by statement. *)\n")
	out.WriteString("From Plenc Require Import Base Varint GoSem.\n@@MEM@@")
	if wholePkg {
		out.WriteString("From PlencGen Require GenCore.\n")
	}
	{
		mods := map[string]bool{}
		for _, m := range externMod {
			mods[m] = true
		}
		var ml []string
		for m := range mods {
			ml = append(ml, m)
		}
		sort.Strings(ml)
		for _, m := range ml {
			out.WriteString("From PlencGen Require " + m + ".\n")
		}
	}
	out.WriteString("Open Scope N_scope.\n\n")
	// the package's integer constants
	scope := pkg.Scope()
	for _, n := range scope.Names() {
		if wholePkg {
			break // constants are folded into the expressions that use them
		}
		if c, ok := scope.Lookup(n).(*types.Const); ok {
			if k, ok := intKind(c.Type()); ok && c.Val().Kind() == constant.Int {
				out.WriteString(fmt.Sprintf("Definition %s : %s := %s.\n", sane(n), coqType(c.Type(), nil), lit(c.Val(), k, nil)))
			} else if c.Val().Kind() == constant.String && len(os.Args) == 6 && !wholePkg {
				out.WriteString(fmt.Sprintf("Definition %s : bytes := %s.\n", sane(n), bytesLit(constant.StringVal(c.Val()))))
			}
		}
	}
	out.WriteString("\n")
	// the struct types the translated methods work on (innermost first)
	var recs []string
	seenRec := map[string]bool{}
	var addRec func(t types.Type)
	addRec = func(t types.Type) {
		if p, ok := t.(*types.Pointer); ok {
			t = p.Elem()
		}
		if sl, ok := t.Underlying().(*types.Slice); ok {
			if _, named := t.(*types.Named); !named {
				addRec(sl.Elem())
				return
			}
		}
		if nt, isNamed := t.(*types.Named); isNamed && nt.Obj().Pkg() != pkg {
			return // a type of another package (time.Time): carried as a primitive
		}
		if n, ok := structName(t); ok && !seenRec[n] {
			seenRec[n] = true
			st := t.Underlying().(*types.Struct)
			for i := 0; i < st.NumFields(); i++ {
				addRec(st.Field(i).Type())
			}
			recs = append(recs, n)
		}
	}
	for _, n := range sorted {
		if fd := funcs[n]; fd.Recv != nil && usesRecv[n] {
			addRec(info.Defs[fd.Recv.List[0].Names[0]].Type())
		}
		if externMod[n] != "" {
			continue
		}
		ast.Inspect(funcs[n].Body, func(x ast.Node) bool {
			if e, ok := x.(ast.Expr); ok {
				if _, t, ok := derefOf(e); ok {
					addRec(t)
				} else if _, isCall := e.(*ast.CallExpr); isCall {
					if _, t, ok := ptrConvOf(e); ok {
						addRec(t)
					}
				}
			}
			return true
		})
	}
	out.WriteString(recordDefs(recs))
	out.WriteString("\n")
	var body strings.Builder
	for _, n := range sorted {
		g := &gen{fn: funcs[n]}
		text := g.function()
		if externMod[n] != "" {
			continue // emitted in that module; analysed here for its calling convention
		}
		body.WriteString(text)
		body.WriteString("\n")
	}
	// package-level variables the functions refer to: initialised once, before anything runs
	var pvs []string
	for n := range usedPkgVars {
		pvs = append(pvs, n)
	}
	sort.Strings(pvs)
	for _, n := range pvs {
		vs := pkgVars[n]
		g := &gen{fn: &ast.FuncDecl{Name: ast.NewIdent("init")}, mon: true}
		var pre []string
		v := g.expr(vs.Values[0], &pre)
		t := info.Defs[vs.Names[0]].Type()
		out.WriteString(fmt.Sprintf("(* %s *)\nDefinition %s : %s := go_init %s (let fuel := 64%%nat in %s Ok %s).\n\n", posOf(vs), sane(n), coqType(t, vs), zeroOf(t, vs), strings.Join(pre, " "), v))
	}
	out.WriteString(body.String())
	var ml []string
	for _, n := range sorted {
		if monadic[n] {
			ml = append(ml, n)
		}
	}
	out.WriteString("(* functions in the res monad (loops, slicing, error results): " + strings.Join(ml, ", ") + " *)\n")
	text := out.String()
	if usedMem {
		// the Codec interface as a method table and struct memory as a value of the model (GoMem.v)
		text = strings.Replace(text, "@@MEM@@", "From Plenc Require Import GoMem.\n", 1)
	} else {
		text = strings.Replace(text, "@@MEM@@", "", 1)
	}
	if err := os.WriteFile(os.Args[2], []byte(text), 0o644); err != nil {
		fail(nil, "%v", err)
	}
}
