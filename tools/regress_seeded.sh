#!/bin/bash
# regress_seeded.sh [<seeded dir name pattern>]   e.g.  regress_seeded.sh 'C04-*'
# Applies each stored seeded change to /repo, runs the checks its meta.json names under caught_by
# (stopping at the first that reports the violation), and undoes the change straight afterwards.
# Evidence written during these runs is discarded (what is committed comes from the unchanged tree).
set -u
export GOFLAGS=-mod=mod GOPROXY=off GOSUMDB=off GOTOOLCHAIN=local
pat=${1:-*}
cd /verif
rm -rf /tmp/evidence.keep && cp -r /verif/evidence /tmp/evidence.keep
trap 'git -C /repo checkout -- .; cp /tmp/evidence.keep/*.json /verif/evidence/ 2>/dev/null' EXIT INT TERM
miss=0
for d in seeded/$pat; do
  [ -f $d/patch.diff ] || continue
  checks=$(python3 -c "import json;print(' '.join(json.load(open('$d/meta.json'))['caught_by']))")
  git -C /repo apply /verif/$d/patch.diff || { echo "$d: PATCH DOES NOT APPLY"; miss=$((miss+1)); continue; }
  caught=""
  for c in $checks; do
    out=$(timeout 900 bin/check $c 2>&1); rc=$?
    if [ $rc -eq 1 ] && echo "$out" | grep -q "^VIOLATION property=$c "; then caught=$c; break; fi
  done
  git -C /repo checkout -- .
  if [ -n "$caught" ]; then echo "$d: caught by $caught"; else echo "$d: MISSED (ran: $checks)"; miss=$((miss+1)); fi
done
cp /tmp/evidence.keep/*.json /verif/evidence/ 2>/dev/null
git -C /repo status --short
echo "missed: $miss"
