module aliasscan

go 1.21
