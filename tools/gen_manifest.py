#!/usr/bin/env python3
"""Regenerates /verif/MANIFEST.json from the per-property table below."""
import json, os
ROOT = os.path.dirname(os.path.dirname(os.path.abspath(__file__)))
props = [json.loads(l) for l in open(os.path.join(ROOT, "properties.jsonl"))]

TB = ("Trusted: Coq 8.16.1 kernel + vm_compute (no native_compute, no axioms: every theorem is closed under the global context); "
      "the hand-written model is tied to the code only by the correspondence check (Go harness + orchestrator), on generated cases; "
      "Go memory/unsafe/reflect/runtime primitives are modelled by their functional meaning; 64-bit little-endian platform.")

CLAIMS = {
 "C18": dict(text="Theorems for all 64-bit values (no bound): varint read/append/size agreement, canonical protobuf varint, zig-zag bijection and magnitude classes, tag round trip for every wire code and index < 2^61, Skip exact on well-formed fields of every wire type, bounded and total on arbitrary bytes. Correspondence: plenccore's functions against the model on every boundary and on exhaustive short byte strings.",
             note=TB + " Shifts/xor of ZigZag/ZagZig are modelled with Z bit operations and proved equal to the arithmetic reading.",
             tech="Coq proofs (induction on fuel / lia) about a transliteration of varints.go, binary.Uvarint and wire.go; differential check by vm_compute"),
 "C05": dict(text="Theorem C05_size: for EVERY codec tree (all 22 constructors incl. struct, four slice wrappers, maps, proto forms, null, BQ timestamp, JSON) and every value, the model's Size (transcribed from the Go Size methods, not defined via Append) equals the length of the model's Append, with nil and non-nil tag; framing theorems (tag ++ varint(len body) ++ body; one frame per element in the repeated form). Correspondence: Size/Append/Read of the real codecs vs the model for the codec of every generated type. Consumed-length law is checked by the correspondence and proved within the round-trip development as it grows.",
             note=TB + " Side condition [fits]: integers fit their Go type, lengths written as varints < 2^64.",
             tech="Coq proof by induction on the codec tree (custom nested induction principle) + differential check of Size/Append/Read"),
 "C06": dict(text="Theorems: marshal c buf v = buf ++ marshal c [] v for every codec, buffer and value (incl. values that encode to nothing), prefix bytes returned unchanged. The model's Marshal is a function of (codec, value) only; by-value vs by-pointer, capacity, reuse and repetition are runtime facts decided by the correspondence: real Marshal output for prefixes x spare capacities x conventions x repeated calls must be exactly the model's bytes (maps: after reordering entries to the wire order).",
             note=TB + " By-value calls with pointer-shaped single-field structs are excluded (known finding D13).",
             tech="Coq theorems on the Marshal model + differential check over buffer prefixes/capacities/conventions"),
 "C15": dict(text="Theorems for ALL call trees (any depth/width, empty containers, every adjacency): the JSONOutput state machine (prefix/end/punctuate incl. the trailing-comma trim, stack, inField) produces exactly the structural reference rendering, from a fresh state and from any state of an enclosing document; appendString is invertible on every byte string (256-value sweep lifted by induction) and never emits a raw control byte or bare quote; Reset returns to the initial state. Correspondence: Done() bytes of the real outputter on generated call trees and Reset histories vs the model; natively encoding/json must parse the output to the call tree. Number/time tokens are opaque (strconv/time are not modelled).",
             note=TB + " strconv.AppendInt/AppendFloat/AppendBool and time.AppendFormat output is taken from the implementation as opaque tokens; that the rendered text is grammatical JSON is checked with encoding/json on every generated case, not proved.",
             tech="Coq proof by induction on call trees with a state-machine invariant; finite sweep + induction for escaping; differential check + encoding/json parse"),
 "C14": dict(text="Theorems: a struct's descriptor has exactly one element per encoded field in declaration order with its index and name and the struct's type name; the field type / logical type matches the codec's wire encoding for every codec constructor; ExplicitPresence is set for exactly pointer and null codecs; the full statement is refuted for recursive types (C14_recursive_refuted: Descriptor() does not terminate - known finding D21). Correspondence (decisive): the Descriptor() tree of every generated non-recursive type equals the model's descriptor_of(codec_for(type)).",
             note=TB + " That codec_for picks the documented codec for each Go type (json names, tag options, named types) is validated by the correspondence, not yet proved against an independent type-level specification.",
             tech="Coq case analysis / induction over the codec tree + differential check of Descriptor() trees"),
 "C13": dict(text="PARTIAL. The model transcribes Descriptor.read (struct / map-entry / slice / JSON walkers, missing-member defaults) into Coq and is compared call-for-call with the implementation's Outputter calls on Marshal output (decisive); theorems so far: the walk of every scalar leaf's encoding emits exactly that scalar and consumes its length. On the implementation: the JSON text must parse (encoding/json) to the JSON image of the typed decode, and the walk must be identical for descriptors restored through plenc and encoding/json. Known findings (flat narrow negatives, proto-compatible time and repeated forms, recursive types) are listed and still reported if they change shape.",
             note=TB + " encoding/json and the harness's JSON image of a Go value are trusted for the native comparison; composite-walk theorems are not yet proved.",
             tech="Coq model of the descriptor walker + differential check on Outputter call sequences; scalar-leaf theorems"),
 "C16": dict(text="Theorems for all JSON-model trees: sizeJSONValue/JSONMapCodec.size/JSONArrayCodec.size equal the appended length; a JSON object/array in an unknown field is skipped exactly (Skip returns its encoded length). Round trip, struct-field and skipped positions are decided by the correspondence (model jread_* vs implementation), and the Descriptor walk is checked natively to render JSON equal to the value. PARTIAL: the round-trip theorem for the mutually recursive reader is not yet proved.",
             note=TB,
             tech="Coq proofs by nested induction on JSON trees + differential check of the JSON codecs"),
 "C07": dict(text="PARTIAL. Theorems for every interleaving of any number of goroutines of the abstract construction machine (allocate / fill in / complete / publish codec objects): whatever is reachable from the shared registry is completely built; a codec object is written only by the goroutine that allocated it, only before completion, and never once any published object reaches it. The Publish guard is the code's discipline (codecs built during a struct build stay private; the struct codec is published after BuildStructCodec returns) and is tied to the code by running the real CodecForTypeRegistry under a deterministic scheduler (instrumented registry, every Load/StoreOrSwap a scheduling point, all two-goroutine schedules with <= 2 context switches + random 2-4 goroutine schedules over recursive / mutually recursive / shared-subtype families), exercising every codec at the moment it is published and comparing every result with a sequential build; plus free-running 8-goroutine first use (race detector in the thorough tier). Not covered by theorems: real data races on Go memory, sync.Map/Pool/Mutex internals.",
             note=TB + " sync.Map/sync.Pool/atomic are assumed sequentially consistent; the Go memory model is not formalised.",
             tech="Coq invariant proof over all interleavings of an abstract publication machine + deterministic schedule enumeration of the real construction code through an instrumented registry"),
 "C11": dict(text="PARTIAL. The list of every expression in a decode path that turns input bytes into a string or byte slice is REGENERATED from /repo's source by a go/ast scanner on every run and a Coq theorem re-proved over it: every such site copies (string(data), append([]byte(nil), data...)), none casts or re-slices the input, and the scan still covers StringCodec/BytesCodec/InternedStringCodec; Marshal keeps the destination prefix. Physical sharing cannot be shown by a theorem: the harness checks on the running code that no decoded string / byte slice / map key / interned string lies inside the input buffer's address range (incl. spare capacity), scribbles over and re-uses the buffer and re-compares, snapshots the marshalled value, and checks the output range against the value's strings.",
             note=TB + " The scanner (tools/aliasscan) is in the trusted base for the site list.",
             tech="source-regenerated Coq site table with a finite theorem + pointer-range / scribble / snapshot checks"),
 "C12": dict(text="PARTIAL. Theorems for all codec trees: proto-mode codecs only ever put wire types 0/1/2/5 in a tag; Timestamp is {1: seconds, 2: nanos} plain varints; slices of length-delimited elements are one tagged frame per element; proto maps are one key=1/value=2 entry message per entry; a default-mode slice codec reads a repeated-form element exactly as the proto-mode codec does; ProtoCompatibleTime only swaps the time.Time registration; the nested-repeated-field round trip is refuted (known finding D12). Correspondence: bytes and round trips under all four option combinations vs the model; natively an independent protobuf wire reader must accept the fully proto-compatible output and default mode must decode the repeated form to the same value.",
             note=TB + " The independent protobuf reader is part of the harness (trusted).",
             tech="Coq structural theorems over the codec tree + differential check + independent protobuf wire reader"),
 "C17": dict(text="Theorems: a codec registered for exactly (type, tag) is the one used before any kind default; pointer targets are looked up with the field's option, slice elements and map keys/values with none (so the registered codec is found at every position); named types without a registration use their kind's codec; operations on other instances never change what an instance's registry holds (all histories). Correspondence: interleaved histories over 2-4 long-lived instances with random option/registration sets and the package-level functions; every result must equal the model under that instance's configuration.",
             note=TB + " The per-instance state of the model is the registry only; pools and intern tables are covered by C10/C19.",
             tech="Coq theorems on the registry/lookup model and an instance-history machine + differential multi-instance histories"),
 "C19": dict(text="Theorems over every schedule of every number of goroutines of the interning machine (load pointer / lookup / lock / reload / lookup / copy+insert+store / unlock as atomic steps): the strings a goroutine has been handed back are exactly its inputs (transparency); every table version ever published maps each key to a string with that content. Correspondence: sequential histories of the real interned codec vs the model and vs a non-interned twin (new/repeated/empty/prefix-sharing/binary strings, buffer overwritten between calls, earlier results re-checked, encoding compared), 8 concurrent readers; pointer-range test that interned strings never reference the caller's buffer.",
             note=TB + " Atomic pointer and mutex are modelled as sequentially consistent steps; the schedule-level model is not driven against the implementation (no yield points inside InternedStringCodec), only its sequential runs are.",
             tech="Coq invariant proof over all schedules of the interning state machine + differential histories against a non-interned twin"),
 "C20": dict(text="PARTIAL. Theorems on the model of rewrite's two passes, for all field lists and flag combinations: every field is left exactly as it was or gains one plenc tag after its existing tags (order and content of the others kept); fields with a plenc tag, private fields and unparsable tags are untouched; new indexes are strictly greater than every existing index and pairwise distinct; a second run changes nothing. Correspondence: the real binary (built from /repo/cmd/plenctag each run) on generated Go files, resulting tags compared field by field with the model (incl. 'errors reported => file not written'); on the implementation: no crash, parses, gofmt fixpoint, type-checks, second run no-op, plenc accepts every rewritten struct. Known finding D19 (multi-name fields).",
             note=TB + " go/parser, go/format, go/types and fatih/structtag are trusted; formatting and compilation are observed, not proved.",
             tech="Coq proofs by induction over field lists + differential runs of the real plenctag binary"),
}

checks = []
for p in props:
    c = CLAIMS.get(p["id"])
    if not c:
        continue
    checks.append(dict(
        property_id=p["id"],
        quick_cmd="bin/check %s --tier quick" % p["id"],
        thorough_cmd="bin/check %s --tier thorough" % p["id"],
        evidence_file="evidence/%s.json" % p["id"],
        replay_cmd_template="bin/check %s --replay {path}" % p["id"],
        engine="coq-model+correspondence",
        level_claimed=dict(category="proof", text=c["text"], design_ref="DESIGN.md section 6, " + p["id"]),
        level_note=c["note"],
        technique=c["tech"]))
m = dict(version=1, setup_cmd="bin/setup",
  hooks=dict(guard="verif", enable="go build -tags verif (no hook files are needed: internals are reached through exported APIs such as CodecForTypeRegistry and the Codec interface)",
             baseline_off_cmd="cd /repo && GOFLAGS=-mod=mod go test -vet=off -count=1 ./...", source_commits=[], add_only=True),
  engines=[dict(name="coq-model+correspondence", path="bin/check", serves_properties=sorted(CLAIMS),
                kind_free_text="machine-checked proof in Coq 8.16.1 about a hand-written executable Gallina model of plenc; a Go harness rebuilt against /repo's working tree runs the implementation on generated cases and the model is evaluated on the same cases inside Coq (vm_compute); mismatches and broken proofs are reported as violations")],
  checks=checks,
  notes="See DESIGN.md. /repo carries 'fix:' commits for genuine defects found while building the proofs; they are listed in known_findings.json.",
  not_applicable=[dict(property_id=p["id"], reason="check under construction in this session (not yet claimed)") for p in props if p["id"] not in CLAIMS])
json.dump(m, open(os.path.join(ROOT, "MANIFEST.json"), "w"), indent=1)
print("claimed:", sorted(CLAIMS))
