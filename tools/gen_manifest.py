#!/usr/bin/env python3
"""Regenerates /verif/MANIFEST.json from the per-property table below."""
import json, os
ROOT = os.path.dirname(os.path.dirname(os.path.abspath(__file__)))
props = [json.loads(l) for l in open(os.path.join(ROOT, "properties.jsonl"))]

TB = ("Trusted: Coq 8.16.1 kernel + vm_compute (no native_compute, no axioms: every theorem is closed under the global context); "
      "the hand-written model is tied to the code only by the correspondence check (Go harness + orchestrator), on generated cases; "
      "Go memory/unsafe/reflect/runtime primitives are modelled by their functional meaning; 64-bit little-endian platform.")

CLAIMS = {
 "C18": dict(text="Theorems for all 64-bit values (no bound): varint read/append/size agreement, canonical protobuf varint, zig-zag bijection and magnitude classes, tag round trip for every wire code and index < 2^61, Skip exact on well-formed fields of every wire type, bounded and total on arbitrary bytes. Correspondence: plenccore's functions against the model on every boundary and on exhaustive short byte strings.",
             note=TB + " Shifts/xor of ZigZag/ZagZig are modelled with Z bit operations and proved equal to the arithmetic reading.",
             tech="Coq proofs (induction on fuel / lia) about a transliteration of varints.go, binary.Uvarint and wire.go; differential check by vm_compute"),
 "C05": dict(text="Theorem C05_size: for EVERY codec tree (all 22 constructors incl. struct, four slice wrappers, maps, proto forms, null, BQ timestamp, JSON) and every value, the model's Size (transcribed from the Go Size methods, not defined via Append) equals the length of the model's Append, with nil and non-nil tag; framing theorems (tag ++ varint(len body) ++ body; one frame per element in the repeated form). Correspondence: Size/Append/Read of the real codecs vs the model for the codec of every generated type. Consumed-length law is checked by the correspondence and proved within the round-trip development as it grows.",
             note=TB + " Side condition [fits]: integers fit their Go type, lengths written as varints < 2^64.",
             tech="Coq proof by induction on the codec tree (custom nested induction principle) + differential check of Size/Append/Read"),
 "C06": dict(text="Theorems: marshal c buf v = buf ++ marshal c [] v for every codec, buffer and value (incl. values that encode to nothing), prefix bytes returned unchanged. The model's Marshal is a function of (codec, value) only; by-value vs by-pointer, capacity, reuse and repetition are runtime facts decided by the correspondence: real Marshal output for prefixes x spare capacities x conventions x repeated calls must be exactly the model's bytes (maps: after reordering entries to the wire order).",
             note=TB + " By-value calls with pointer-shaped single-field structs are excluded (known finding D13).",
             tech="Coq theorems on the Marshal model + differential check over buffer prefixes/capacities/conventions"),
 "C15": dict(text="Theorems for ALL call trees (any depth/width, empty containers, every adjacency): the JSONOutput state machine (prefix/end/punctuate incl. the trailing-comma trim, stack, inField) produces exactly the structural reference rendering, from a fresh state and from any state of an enclosing document; appendString is invertible on every byte string (256-value sweep lifted by induction) and never emits a raw control byte or bare quote; Reset returns to the initial state. Correspondence: Done() bytes of the real outputter on generated call trees and Reset histories vs the model; natively encoding/json must parse the output to the call tree. Number/time tokens are opaque (strconv/time are not modelled).",
             note=TB + " strconv.AppendInt/AppendFloat/AppendBool and time.AppendFormat output is taken from the implementation as opaque tokens; that the rendered text is grammatical JSON is checked with encoding/json on every generated case, not proved.",
             tech="Coq proof by induction on call trees with a state-machine invariant; finite sweep + induction for escaping; differential check + encoding/json parse"),
 "C14": dict(text="Theorems: a struct's descriptor has exactly one element per encoded field in declaration order with its index and name and the struct's type name; the field type / logical type matches the codec's wire encoding for every codec constructor; ExplicitPresence is set for exactly pointer and null codecs; the full statement is refuted for recursive types (C14_recursive_refuted: Descriptor() does not terminate - known finding D21). Correspondence (decisive): the Descriptor() tree of every generated non-recursive type equals the model's descriptor_of(codec_for(type)).",
             note=TB + " That codec_for picks the documented codec for each Go type (json names, tag options, named types) is validated by the correspondence, not yet proved against an independent type-level specification.",
             tech="Coq case analysis / induction over the codec tree + differential check of Descriptor() trees"),
 "C13": dict(text="PARTIAL. The model transcribes Descriptor.read (struct / map-entry / slice / JSON walkers, missing-member defaults) into Coq and is compared call-for-call with the implementation's Outputter calls on Marshal output (decisive); theorems so far: the walk of every scalar leaf's encoding emits exactly that scalar and consumes its length. On the implementation: the JSON text must parse (encoding/json) to the JSON image of the typed decode, and the walk must be identical for descriptors restored through plenc and encoding/json. Known findings (flat narrow negatives, proto-compatible time and repeated forms, recursive types) are listed and still reported if they change shape.",
             note=TB + " encoding/json and the harness's JSON image of a Go value are trusted for the native comparison; composite-walk theorems are not yet proved.",
             tech="Coq model of the descriptor walker + differential check on Outputter call sequences; scalar-leaf theorems"),
 "C16": dict(text="Theorems for all JSON-model trees: sizeJSONValue/JSONMapCodec.size/JSONArrayCodec.size equal the appended length; a JSON object/array in an unknown field is skipped exactly (Skip returns its encoded length). Round trip, struct-field and skipped positions are decided by the correspondence (model jread_* vs implementation), and the Descriptor walk is checked natively to render JSON equal to the value. PARTIAL: the round-trip theorem for the mutually recursive reader is not yet proved.",
             note=TB,
             tech="Coq proofs by nested induction on JSON trees + differential check of the JSON codecs"),
}

checks = []
for p in props:
    c = CLAIMS.get(p["id"])
    if not c:
        continue
    checks.append(dict(
        property_id=p["id"],
        quick_cmd="bin/check %s --tier quick" % p["id"],
        thorough_cmd="bin/check %s --tier thorough" % p["id"],
        evidence_file="evidence/%s.json" % p["id"],
        replay_cmd_template="bin/check %s --replay {path}" % p["id"],
        engine="coq-model+correspondence",
        level_claimed=dict(category="proof", text=c["text"], design_ref="DESIGN.md section 6, " + p["id"]),
        level_note=c["note"],
        technique=c["tech"]))
m = dict(version=1, setup_cmd="bin/setup",
  hooks=dict(guard="verif", enable="go build -tags verif (no hook files are needed: internals are reached through exported APIs such as CodecForTypeRegistry and the Codec interface)",
             baseline_off_cmd="cd /repo && GOFLAGS=-mod=mod go test -vet=off -count=1 ./...", source_commits=[], add_only=True),
  engines=[dict(name="coq-model+correspondence", path="bin/check", serves_properties=sorted(CLAIMS),
                kind_free_text="machine-checked proof in Coq 8.16.1 about a hand-written executable Gallina model of plenc; a Go harness rebuilt against /repo's working tree runs the implementation on generated cases and the model is evaluated on the same cases inside Coq (vm_compute); mismatches and broken proofs are reported as violations")],
  checks=checks,
  notes="See DESIGN.md. /repo carries 'fix:' commits for genuine defects found while building the proofs; they are listed in known_findings.json.",
  not_applicable=[dict(property_id=p["id"], reason="check under construction in this session (not yet claimed)") for p in props if p["id"] not in CLAIMS])
json.dump(m, open(os.path.join(ROOT, "MANIFEST.json"), "w"), indent=1)
print("claimed:", sorted(CLAIMS))
