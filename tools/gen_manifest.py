#!/usr/bin/env python3
"""Regenerates /verif/MANIFEST.json from the per-property table below."""
import json, os
ROOT = os.path.dirname(os.path.dirname(os.path.abspath(__file__)))
props = [json.loads(l) for l in open(os.path.join(ROOT, "properties.jsonl"))]

TB = ("Trusted: Coq 8.16.1 kernel + vm_compute (no native_compute, no axioms: every theorem is closed under the global context); "
      "the hand-written model is tied to the code only by the correspondence check (Go harness + orchestrator), on generated cases; "
      "Go memory/unsafe/reflect/runtime primitives are modelled by their functional meaning; 64-bit little-endian platform.")

CLAIMS = {
 "C18": dict(text="Theorems for all 64-bit values (no bound): varint read/append/size agreement, canonical protobuf varint, zig-zag bijection and magnitude classes, tag round trip for every wire code and index < 2^61, Skip exact on well-formed fields of every wire type, bounded and total on arbitrary bytes. Correspondence: plenccore's functions against the model on every boundary and on exhaustive short byte strings.",
             note=TB + " Shifts/xor of ZigZag/ZagZig are modelled with Z bit operations and proved equal to the arithmetic reading.",
             tech="Coq proofs (induction on fuel / lia) about a transliteration of varints.go, binary.Uvarint and wire.go; differential check by vm_compute"),
 "C05": dict(text="Theorem C05_size: for EVERY codec tree (all 22 constructors incl. struct, four slice wrappers, maps, proto forms, null, BQ timestamp, JSON) and every value, the model's Size (transcribed from the Go Size methods, not defined via Append) equals the length of the model's Append, with nil and non-nil tag; framing theorems (tag ++ varint(len body) ++ body; one frame per element in the repeated form). Correspondence: Size/Append/Read of the real codecs vs the model for the codec of every generated type. Consumed-length law is checked by the correspondence and proved within the round-trip development as it grows.",
             note=TB + " Side condition [fits]: integers fit their Go type, lengths written as varints < 2^64.",
             tech="Coq proof by induction on the codec tree (custom nested induction principle) + differential check of Size/Append/Read"),
 "C06": dict(text="Theorems: marshal c buf v = buf ++ marshal c [] v for every codec, buffer and value (incl. values that encode to nothing), prefix bytes returned unchanged. The model's Marshal is a function of (codec, value) only; by-value vs by-pointer, capacity, reuse and repetition are runtime facts decided by the correspondence: real Marshal output for prefixes x spare capacities x conventions x repeated calls must be exactly the model's bytes (maps: after reordering entries to the wire order).",
             note=TB + " By-value calls with pointer-shaped single-field structs are excluded (known finding D13).",
             tech="Coq theorems on the Marshal model + differential check over buffer prefixes/capacities/conventions"),
}

checks = []
for p in props:
    c = CLAIMS.get(p["id"])
    if not c:
        continue
    checks.append(dict(
        property_id=p["id"],
        quick_cmd="bin/check %s --tier quick" % p["id"],
        thorough_cmd="bin/check %s --tier thorough" % p["id"],
        evidence_file="evidence/%s.json" % p["id"],
        replay_cmd_template="bin/check %s --replay {path}" % p["id"],
        engine="coq-model+correspondence",
        level_claimed=dict(category="proof", text=c["text"], design_ref="DESIGN.md section 6, " + p["id"]),
        level_note=c["note"],
        technique=c["tech"]))
m = dict(version=1, setup_cmd="bin/setup",
  hooks=dict(guard="verif", enable="go build -tags verif (no hook files are needed: internals are reached through exported APIs such as CodecForTypeRegistry and the Codec interface)",
             baseline_off_cmd="cd /repo && GOFLAGS=-mod=mod go test -vet=off -count=1 ./...", source_commits=[], add_only=True),
  engines=[dict(name="coq-model+correspondence", path="bin/check", serves_properties=sorted(CLAIMS),
                kind_free_text="machine-checked proof in Coq 8.16.1 about a hand-written executable Gallina model of plenc; a Go harness rebuilt against /repo's working tree runs the implementation on generated cases and the model is evaluated on the same cases inside Coq (vm_compute); mismatches and broken proofs are reported as violations")],
  checks=checks,
  notes="See DESIGN.md. /repo carries 'fix:' commits for genuine defects found while building the proofs; they are listed in known_findings.json.",
  not_applicable=[dict(property_id=p["id"], reason="check under construction in this session (not yet claimed)") for p in props if p["id"] not in CLAIMS])
json.dump(m, open(os.path.join(ROOT, "MANIFEST.json"), "w"), indent=1)
print("claimed:", sorted(CLAIMS))
